"""Builds the real `unber` and `enber` executables from /repo's current working tree
(ASan, no UBSan-recover) into /verif/.cache/<key>/.  Source lists and include paths
follow asn1-tools/unber/Makefile.am and asn1-tools/enber/Makefile.am:

  unber = unber.c + libasn1_unber_tool.c (which #includes skeleton .c files) + libasn1common
  enber = enber.c (which #includes ber_tlv_tag.c/ber_tlv_length.c/constraints.c) + libasn1common

Nothing is written into /repo; the key is the hash of every file that can be
#included (tool sources, libasn1common, libasn1parser headers, all skeleton .c/.h,
config.h) plus the flags."""
import glob, os, shutil
from . import build

SFLAGS = ["-O1", "-g", "-fsanitize=address,undefined", "-fno-sanitize-recover=all", "-fno-omit-frame-pointer"]

def _common_sources():
    return sorted(f for f in glob.glob(os.path.join(build.REPO, "libasn1common", "*.c")))

def _dep_files():
    R = build.REPO
    deps = []
    deps += glob.glob(os.path.join(R, "libasn1common", "*.[ch]"))
    deps += glob.glob(os.path.join(R, "libasn1parser", "*.h"))
    deps += glob.glob(os.path.join(R, "skeletons", "*.[ch]"))
    deps += glob.glob(os.path.join(R, "asn1-tools", "unber", "*.[ch]"))
    deps += glob.glob(os.path.join(R, "asn1-tools", "enber", "*.[ch]"))
    deps.append(os.path.join(R, "config.h"))
    return sorted(set(d for d in deps if os.path.isfile(d)))

def _flags():
    R = build.REPO
    return (["-std=gnu99", build.GUARD, "-DHAVE_CONFIG_H", "-w", "-I" + R,
             "-I" + os.path.join(R, "libasn1common"), "-I" + os.path.join(R, "libasn1parser"),
             "-I" + os.path.join(R, "skeletons")] + SFLAGS)

def _tool_sources(tool):
    R = build.REPO
    if tool == "unber":
        return [os.path.join(R, "asn1-tools", "unber", "unber.c"),
                os.path.join(R, "asn1-tools", "unber", "libasn1_unber_tool.c")]
    if tool == "enber":
        return [os.path.join(R, "asn1-tools", "enber", "enber.c")]
    raise ValueError(tool)

def build_tools():
    """Returns (unber_exe, enber_exe), both built from the working tree with ASan+UBSan."""
    flags = _flags()
    key = "ber-tools-" + build._hash(_dep_files(), flags)
    d = os.path.join(build.CACHE, key)
    unber = os.path.join(d, "unber"); enber = os.path.join(d, "enber")
    with build._Lock(key):
        if os.path.exists(unber) and os.path.exists(enber) and not os.environ.get("VERIF_NO_CACHE"):
            os.utime(d)
            return unber, enber
        shutil.rmtree(d, ignore_errors=True)
        common = build.compile_objects(_common_sources(), os.path.join(d, "obj-common"), flags)
        for tool, exe in (("unber", unber), ("enber", enber)):
            objs = build.compile_objects(_tool_sources(tool), os.path.join(d, "obj-" + tool), flags)
            r = build.sh(["gcc"] + SFLAGS + objs + common + ["-lm", "-o", exe])
            if r.returncode != 0:
                raise build.BuildError(f"link failed: {tool}\n{r.stdout}")
    build._evict()
    return unber, enber
