"""Builds everything from /repo's *current working tree* into /verif/.cache/<key>/.

The key is the SHA-256 of the contents of every source used plus the flags, so a
changed file gives a new key and a rebuild (VERIF_NO_CACHE=1 forces a rebuild).
Nothing here writes into /repo."""
import hashlib, os, subprocess, sys, glob, shutil, time, fcntl
from concurrent.futures import ThreadPoolExecutor

VERIF = os.path.dirname(os.path.dirname(os.path.abspath(__file__)))
REPO = os.environ.get("VERIF_REPO", "/repo")
CACHE = os.path.join(VERIF, ".cache")
LEAN = os.environ.get("VERIF_LEAN", os.path.join(VERIF, "lean"))
HARNESS = os.path.join(VERIF, "harness")
GUARD = "-DVLM_ASN1C_VERIF"
JOBS = int(os.environ.get("VERIF_JOBS", "16"))

SKEL_EXCLUDE = {"converter-example.c"}
SAN = {
    "asan": ["-O1", "-g", "-fsanitize=address,undefined", "-fno-sanitize-recover=all", "-fno-omit-frame-pointer"],
    "tsan": ["-O1", "-g", "-fsanitize=thread"],
    "plain": ["-O1", "-g"],
}

class BuildError(Exception):
    pass

def sh(cmd, **kw):
    return subprocess.run(cmd, stdout=subprocess.PIPE, stderr=subprocess.STDOUT, text=True, **kw)

def _hash(files, extra):
    h = hashlib.sha256()
    for f in sorted(files):
        h.update(f.encode()); h.update(b"\0")
        with open(f, "rb") as fh:
            h.update(fh.read())
    h.update(repr(extra).encode())
    return h.hexdigest()[:20]

def _evict(keep=40):
    try:
        ds = [os.path.join(CACHE, d) for d in os.listdir(CACHE) if os.path.isdir(os.path.join(CACHE, d))]
    except FileNotFoundError:
        return
    ds.sort(key=lambda d: os.path.getmtime(d))
    for d in ds[:-keep]:
        shutil.rmtree(d, ignore_errors=True)

class _Lock:
    def __init__(self, name):
        os.makedirs(CACHE, exist_ok=True)
        self.path = os.path.join(CACHE, name + ".lock")
    def __enter__(self):
        self.fh = open(self.path, "w")
        fcntl.flock(self.fh, fcntl.LOCK_EX)
    def __exit__(self, *a):
        fcntl.flock(self.fh, fcntl.LOCK_UN); self.fh.close()

def compile_objects(srcs, outdir, flags, cc="gcc"):
    os.makedirs(outdir, exist_ok=True)
    def one(src):
        obj = os.path.join(outdir, os.path.basename(src)[:-2].replace("/", "_") + ".o")
        r = sh([cc] + flags + ["-c", src, "-o", obj])
        return src, obj, r
    objs = []
    with ThreadPoolExecutor(JOBS) as ex:
        for src, obj, r in ex.map(one, srcs):
            if r.returncode != 0:
                raise BuildError(f"compile failed: {src}\n{r.stdout}")
            objs.append(obj)
    return objs

def skel_sources():
    return sorted(f for f in glob.glob(os.path.join(REPO, "skeletons", "*.c"))
                  if os.path.basename(f) not in SKEL_EXCLUDE)

def skel_headers():
    return sorted(glob.glob(os.path.join(REPO, "skeletons", "*.h")))

def build_skel(san="asan", extra_flags=()):
    """libskel.a of all skeleton sources, compiled with the repo's own sanitizer flags."""
    srcs = skel_sources()
    flags = ["-std=gnu99", GUARD, "-I" + os.path.join(REPO, "skeletons"), "-w"] + SAN[san] + list(extra_flags)
    key = "skel-" + san + "-" + _hash(srcs + skel_headers(), flags)
    d = os.path.join(CACHE, key)
    lib = os.path.join(d, "libskel.a")
    with _Lock(key):
        if os.path.exists(lib) and not os.environ.get("VERIF_NO_CACHE"):
            os.utime(d)
            return lib
        shutil.rmtree(d, ignore_errors=True)
        objs = compile_objects(srcs, os.path.join(d, "obj"), flags)
        r = sh(["ar", "rcs", lib] + objs)
        if r.returncode != 0:
            raise BuildError("ar failed\n" + r.stdout)
    _evict()
    return lib

def build_prog(name, sources, san="asan", libs=(), includes=(), extra_flags=(), deps=(), cc="gcc"):
    """Link a harness program from harness sources (+ repo sources named by absolute path)."""
    srcs = [s if os.path.isabs(s) else os.path.join(HARNESS, s) for s in sources]
    incs = ["-I" + os.path.join(REPO, "skeletons"), "-I" + HARNESS] + ["-I" + i for i in includes]
    flags = ["-std=gnu99", GUARD, "-w"] + SAN[san] + incs + list(extra_flags)
    hdeps = sorted(glob.glob(os.path.join(HARNESS, "*.h")) + glob.glob(os.path.join(HARNESS, "*.list")))
    key = name + "-" + _hash(srcs + hdeps + list(libs) + list(deps), flags)
    d = os.path.join(CACHE, key)
    exe = os.path.join(d, name)
    with _Lock(key):
        if os.path.exists(exe) and not os.environ.get("VERIF_NO_CACHE"):
            os.utime(d)
            return exe
        shutil.rmtree(d, ignore_errors=True)
        objs = compile_objects(srcs, os.path.join(d, "obj"), flags, cc=cc)
        r = sh([cc] + SAN[san] + objs + list(libs) + ["-lm", "-lpthread", "-o", exe])
        if r.returncode != 0:
            raise BuildError(f"link failed: {name}\n{r.stdout}")
    _evict()
    return exe

def asn1c_sources():
    out = []
    for d in ("libasn1common", "libasn1parser", "libasn1fix", "libasn1print", "libasn1compiler"):
        out += [f for f in glob.glob(os.path.join(REPO, d, "*.c")) if not os.path.basename(f).startswith("check_")]
    out.append(os.path.join(REPO, "asn1c", "asn1c.c"))
    return sorted(out)

def asn1c_flags():
    return ["-std=gnu99", GUARD, "-DHAVE_CONFIG_H", '-DDATADIR="%s"' % os.path.join(REPO, "skeletons"), "-w",
            "-I" + REPO] + ["-I" + os.path.join(REPO, d) for d in
            ("libasn1common", "libasn1parser", "libasn1fix", "libasn1print", "libasn1compiler")]

def build_asn1c(san="asan-only"):
    """The compiler itself, ASan only (UBSan trips on the unchanged tree: asn1p_integer.c:34)."""
    srcs = asn1c_sources()
    hdrs = []
    for d in ("libasn1common", "libasn1parser", "libasn1fix", "libasn1print", "libasn1compiler"):
        hdrs += glob.glob(os.path.join(REPO, d, "*.h"))
    hdrs.append(os.path.join(REPO, "config.h"))
    sflags = ["-O1", "-g", "-fsanitize=address", "-fno-omit-frame-pointer"]
    flags = asn1c_flags() + sflags
    key = "asn1c-" + _hash(srcs + sorted(hdrs), flags)
    d = os.path.join(CACHE, key)
    exe = os.path.join(d, "asn1c")
    with _Lock(key):
        if os.path.exists(exe) and not os.environ.get("VERIF_NO_CACHE"):
            os.utime(d)
            return exe
        shutil.rmtree(d, ignore_errors=True)
        # object names may collide across dirs: prefix by dir
        os.makedirs(os.path.join(d, "obj"), exist_ok=True)
        def one(src):
            obj = os.path.join(d, "obj", os.path.basename(os.path.dirname(src)) + "_" + os.path.basename(src)[:-2] + ".o")
            return src, obj, sh(["gcc"] + flags + ["-c", src, "-o", obj])
        objs = []
        with ThreadPoolExecutor(JOBS) as ex:
            for src, obj, r in ex.map(one, srcs):
                if r.returncode != 0:
                    raise BuildError(f"compile failed: {src}\n{r.stdout}")
                objs.append(obj)
        r = sh(["gcc"] + sflags + objs + ["-o", exe])
        if r.returncode != 0:
            raise BuildError("link asn1c failed\n" + r.stdout)
    _evict()
    return exe

# ---------------------------------------------------------------- Lean

def lake(args, timeout=3600):
    with _Lock("lake"):
        return sh(["lake"] + args, cwd=LEAN, timeout=timeout)

def lean_build(targets):
    """Returns (ok, log)."""
    r = lake(["build"] + list(targets))
    return r.returncode == 0, r.stdout

def model_exe():
    return os.path.join(LEAN, ".lake", "build", "bin", "a1model")

FORBIDDEN = ["sorry", "admit", "native_decide", "bv_decide", "implemented_by", "unsafe ", "maxHeartbeats 0"]

def _strip_comments(text):
    out = []; i = 0; depth = 0; n = len(text)
    while i < n:
        if text.startswith("/-", i):
            depth += 1; i += 2; continue
        if depth and text.startswith("-/", i):
            depth -= 1; i += 2; continue
        if depth:
            i += 1; continue
        if text.startswith("--", i):
            j = text.find("\n", i)
            i = n if j < 0 else j
            continue
        out.append(text[i]); i += 1
    return "".join(out)

def lean_grep_forbidden():
    hits = []
    for root, _, files in os.walk(LEAN):
        if ".lake" in root:
            continue
        for f in files:
            if not f.endswith(".lean"):
                continue
            p = os.path.join(root, f)
            text = _strip_comments(open(p).read())
            for ln, line in enumerate(text.split("\n"), 1):
                for tok in FORBIDDEN:
                    if tok in line:
                        hits.append(f"{os.path.relpath(p, LEAN)}:{ln}: {tok.strip()}")
                if line.startswith("axiom "):
                    hits.append(f"{os.path.relpath(p, LEAN)}:{ln}: axiom")
    return hits

ALLOWED_AXIOMS = {"propext", "Quot.sound", "Classical.choice"}

def lean_audit(module, theorems):
    """#print axioms on each theorem; returns list of dicts {name, ok, axioms, msg}."""
    os.makedirs(os.path.join(LEAN, ".audit"), exist_ok=True)
    path = os.path.join(LEAN, ".audit", module.replace(".", "_") + f"_{os.getpid()}.lean")
    with open(path, "w") as fh:
        fh.write(f"import {module}\n")
        for t in theorems:
            fh.write(f"#print axioms {t}\n")
    r = lake(["env", "lean", path])
    os.unlink(path)
    out = r.stdout
    res = []
    import re
    for t in theorems:
        m = re.search(r"'" + re.escape(t) + r"' (depends on axioms: \[([^\]]*)\]|does not depend on any axioms)", out, re.S)
        if not m:
            res.append({"name": t, "ok": False, "axioms": [], "msg": "theorem not found / not checked"})
            continue
        axs = [a.strip() for a in (m.group(2) or "").replace("\n", " ").split(",") if a.strip()]
        bad = [a for a in axs if a not in ALLOWED_AXIOMS]
        res.append({"name": t, "ok": not bad, "axioms": axs, "msg": ("uses " + ",".join(bad)) if bad else ""})
    return res, out
