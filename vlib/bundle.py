"""A bundle = one generated ASN.1 module compiled by the working tree's asn1c and linked with a
harness driver and libskel.a.  Lives under /verif/.cache/bundles/<key>/ and is removed by the caller
(`Bundle.cleanup()`), nothing is kept under /tmp."""
import os, shutil, subprocess, hashlib, glob
from . import build

class Asn1cFailed(Exception):
    def __init__(self, rc, out):
        super().__init__(f"asn1c exit {rc}")
        self.rc, self.out = rc, out

def run_asn1c(asn1c, text_or_files, outdir, opts=(), timeout=120):
    """Runs asn1c -S /repo/skeletons -D outdir <opts> files.  Returns (rc, output)."""
    os.makedirs(outdir, exist_ok=True)
    files = text_or_files
    if isinstance(text_or_files, str):
        f = os.path.join(outdir, "module.asn1")
        with open(f, "w") as fh: fh.write(text_or_files)
        files = [f]
    env = dict(os.environ, ASAN_OPTIONS="detect_leaks=0:abort_on_error=0")
    cmd = [asn1c, "-S", os.path.join(build.REPO, "skeletons"), "-D", outdir] + list(opts) + list(files)
    p = subprocess.run(cmd, stdout=subprocess.PIPE, stderr=subprocess.STDOUT, text=True, env=env, timeout=timeout)
    return p.returncode, p.stdout

class Bundle:
    def __init__(self, name, text, type_names, driver_sources=("gen_driver.c", "ops_gen_core.c", "reflect.c"),
                 opts=("-no-gen-example", "-fcompound-names"), san="asan", extra_cflags=(), link_flags=()):
        self.name, self.text, self.type_names = name, text, list(type_names)
        self.driver_sources, self.opts, self.san = list(driver_sources), list(opts), san
        self.extra_cflags, self.link_flags = list(extra_cflags), list(link_flags)
        self.dir = None
        self.exe = None

    def build(self):
        asn1c = build.build_asn1c()
        lib = build.build_skel(self.san)
        key = hashlib.sha256((self.text + repr(self.opts) + repr(self.driver_sources) + lib + asn1c + self.san
                              + repr(self.extra_cflags) + repr(self.link_flags)).encode()).hexdigest()[:16]
        self.dir = os.path.join(build.CACHE, "bundles", f"{self.name}-{key}-{os.getpid()}")
        shutil.rmtree(self.dir, ignore_errors=True)
        gen = os.path.join(self.dir, "gen")
        rc, out = run_asn1c(asn1c, self.text, gen, ["-R"] + self.opts)
        self.asn1c_out = out
        if rc != 0:
            raise Asn1cFailed(rc, out)
        srcs = sorted(glob.glob(os.path.join(gen, "*.c")))
        # table of the module's types
        tt = os.path.join(gen, "verif_types_table.c")
        with open(tt, "w") as fh:
            for n in self.type_names: fh.write(f'#include "{n}.h"\n')
            fh.write("asn_TYPE_descriptor_t *verif_types[] = {" + ", ".join(f"&asn_DEF_{n}" for n in self.type_names) + ", 0};\n")
            fh.write("const char *verif_type_names[] = {" + ", ".join(f'"{n}"' for n in self.type_names) + ", 0};\n")
        srcs.append(tt)
        flags = ["-std=gnu99", build.GUARD, "-w", "-I" + gen, "-I" + os.path.join(build.REPO, "skeletons"),
                 "-I" + build.HARNESS] + build.SAN[self.san] + self.extra_cflags
        objs = build.compile_objects(srcs, os.path.join(self.dir, "obj"), flags)
        dsrcs = [s if os.path.isabs(s) else os.path.join(build.HARNESS, s) for s in self.driver_sources]
        dobjs = build.compile_objects(dsrcs, os.path.join(self.dir, "dobj"), flags)
        self.exe = os.path.join(self.dir, "driver")
        r = build.sh(["gcc"] + build.SAN[self.san] + dobjs + objs + [lib, "-lm", "-lpthread"] + self.link_flags + ["-o", self.exe])
        if r.returncode != 0:
            raise build.BuildError("bundle link failed\n" + r.stdout[-3000:])
        return self.exe

    def cleanup(self):
        if self.dir: shutil.rmtree(self.dir, ignore_errors=True)
