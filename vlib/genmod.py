"""Generator of ASN.1 modules (type algebra of C01's quantifier) and of values, boundary-first.

A type is a dict:  {"k": kind, ...};  a module is {"name", "tagdefault", "types": [(name, type)]}.
Values are python objects rendered to the s-expression syntax shared with harness/reflect.c
and the Lean driver (DESIGN Appendix D).

Known-defect regions of the unchanged tree are *steered around* by default (opts in `Avoid`)
so that the generic checks stay meaningful; the witnesses themselves are replayed separately.
"""
import random, struct

STRING_KINDS = ["IA5String", "VisibleString", "PrintableString", "NumericString", "UTF8String", "BMPString", "UniversalString"]
PRIM_KINDS = ["BOOLEAN", "NULL", "INTEGER", "ENUMERATED", "REAL", "BIT STRING", "OCTET STRING",
              "OBJECT IDENTIFIER", "RELATIVE-OID", "UTCTime", "GeneralizedTime"] + STRING_KINDS

UNIV_TAG = {"BOOLEAN": 1, "INTEGER": 2, "BIT STRING": 3, "OCTET STRING": 4, "NULL": 5, "OBJECT IDENTIFIER": 6,
            "REAL": 9, "ENUMERATED": 10, "UTF8String": 12, "RELATIVE-OID": 13, "SEQUENCE": 16, "SEQUENCE OF": 16,
            "SET": 17, "SET OF": 17, "NumericString": 18, "PrintableString": 19, "IA5String": 22, "UTCTime": 23,
            "GeneralizedTime": 24, "VisibleString": 26, "UniversalString": 28, "BMPString": 30}

ALPHABET = {
    "IA5String": [chr(c) for c in range(0x20, 0x7f)] ,
    "VisibleString": [chr(c) for c in range(0x20, 0x7f)],
    "PrintableString": list("ABCDEFGHIJKLMNOPQRSTUVWXYZabcdefghijklmnopqrstuvwxyz0123456789 '()+,-./:=?"),
    "NumericString": list("0123456789 "),
}

class Avoid:
    """defect regions the generators stay out of unless asked (see KNOWN_FINDINGS.json)"""
    def __init__(self, **kw):
        self.enum_mixed_numbering = True      # F15
        self.bitstring_trailing_zero = True   # F19 (UPER strips trailing zero bits)
        self.unsigned_ge_2_63 = True          # F20
        self.ext_index_ge_64 = True           # F29
        self.semi_constrained_nonzero_lb = False
        self.__dict__.update(kw)

# ------------------------------------------------------------------ constraints
def cons(lo, hi, ext=False):
    return {"lo": lo, "hi": hi, "ext": ext}

def cons_text(c):
    if c is None: return ""
    lo = "MIN" if c["lo"] is None else str(c["lo"])
    hi = "MAX" if c["hi"] is None else str(c["hi"])
    body = lo if (c["lo"] is not None and c["lo"] == c["hi"]) else f"{lo}..{hi}"
    if c["ext"]: body += ",..."
    return "(" + body + ")"

def in_cons(c, v):
    if c is None: return True
    return (c["lo"] is None or v >= c["lo"]) and (c["hi"] is None or v <= c["hi"])

# ------------------------------------------------------------------ rendering types
def tag_text(t):
    if t is None: return ""
    cls, num, mode = t
    c = {"ctx": "", "app": "APPLICATION ", "priv": "PRIVATE ", "univ": "UNIVERSAL "}[cls]
    return f"[{c}{num}] " + (mode + " " if mode else "")

def type_text(t, ind=1):
    k = t["k"]
    pre = tag_text(t.get("tag"))
    pad = "  " * ind
    if k == "REF": return pre + t["name"]
    if k == "INTEGER":
        s = "INTEGER"
        if t.get("named"): s += " { " + ", ".join(f"{n}({v})" for n, v in t["named"]) + " }"
        return pre + s + (" " + cons_text(t["cons"]) if t.get("cons") else "")
    if k == "ENUMERATED":
        def it(n, v): return n if v is None else f"{n}({v})"
        s = ", ".join(it(n, v) for n, v in t["items"])
        if t.get("ext") is not None:
            s += ", ..." + "".join(", " + it(n, v) for n, v in t["ext"])
        return pre + "ENUMERATED { " + s + " }"
    if k in ("BIT STRING", "OCTET STRING") or k in STRING_KINDS:
        s = k
        cs = []
        if t.get("size"): cs.append("SIZE" + cons_text(t["size"]))
        if t.get("alpha"): cs.append("FROM(" + "|".join('"%s"' % a if len(a) == 1 else '"%s".."%s"' % (a[0], a[1]) for a in t["alpha"]) + ")")
        if cs: s += " (" + " ^ ".join(cs) + ")" if len(cs) > 1 else " (" + cs[0] + ")"
        return pre + s
    if k in ("SEQUENCE", "SET", "CHOICE"):
        items = []
        comps = t["comps"]
        ext = t.get("ext")
        for i, c in enumerate(comps):
            if ext is not None and i == ext: items.append("...")
            s = c["id"] + " " + type_text(c["type"], ind + 1)
            if c.get("opt") == "OPTIONAL": s += " OPTIONAL"
            elif isinstance(c.get("opt"), tuple): s += " DEFAULT " + c["opt"][1]
            items.append(s)
        if ext is not None and ext >= len(comps): items.append("...")
        return pre + k + " {\n" + ",\n".join(pad + "  " + x for x in items) + "\n" + pad + "}"
    if k in ("SEQUENCE OF", "SET OF"):
        base = k.split()[0]
        sz = (" (SIZE" + cons_text(t["size"]) + ")") if t.get("size") else ""
        return pre + base + sz + " OF " + type_text(t["elem"], ind + 1)
    return pre + k

def module_text(m):
    td = {"EXPLICIT": "EXPLICIT TAGS ", "IMPLICIT": "IMPLICIT TAGS ", "AUTOMATIC": "AUTOMATIC TAGS ", None: ""}[m.get("tagdefault")]
    out = [f"{m['name']} DEFINITIONS {td}::= BEGIN"]
    for name, t in m["types"]:
        out.append(f"  {name} ::= {type_text(t)}")
    out.append("END")
    return "\n".join(out) + "\n"

# ------------------------------------------------------------------ value s-expressions
def b128(n):
    out = [n & 0x7f]; n >>= 7
    while n: out.append(0x80 | (n & 0x7f)); n >>= 7
    return bytes(reversed(out))

def oid_octets(arcs, relative=False):
    if relative: return b"".join(b128(a) for a in arcs)
    return b128(arcs[0] * 40 + arcs[1]) + b"".join(b128(a) for a in arcs[2:])

def hx(b): return b.hex() if b else "-"

def val_sexp(t, v, env):
    """v is the abstract python value; returns the s-expression text"""
    k = t["k"]
    if k == "REF": return val_sexp(env[t["name"]], v, env)
    if k == "BOOLEAN": return "(bool %s)" % ("t" if v else "f")
    if k == "NULL": return "(null)"
    if k == "INTEGER": return "(int %d)" % v
    if k == "ENUMERATED": return "(enum %d)" % v
    if k == "REAL": return "(real %016x)" % v                     # v = IEEE bits
    if k == "OCTET STRING": return "(os %s)" % hx(v)
    if k == "BIT STRING": return "(bs %s %d)" % (hx(v[0]), v[1])
    if k in ("OBJECT IDENTIFIER", "RELATIVE-OID"): return "(oid %s)" % hx(oid_octets(v, k == "RELATIVE-OID"))
    if k in ("UTCTime", "GeneralizedTime"): return "(os %s)" % hx(v.encode())
    if k in STRING_KINDS:
        if k == "BMPString": b = v.encode("utf-16-be")
        elif k == "UniversalString": b = v.encode("utf-32-be")
        elif k == "UTF8String": b = v.encode("utf-8")
        else: b = v.encode("latin1")
        return "(os %s)" % hx(b)
    if k in ("SEQUENCE", "SET"):
        head = "seq" if k == "SEQUENCE" else "set"
        parts = []
        for c in t["comps"]:
            if c["id"] in v:
                parts.append("(%s %s)" % (c["id"], val_sexp(c["type"], v[c["id"]], env)))
        return "(" + " ".join([head] + parts) + ")"
    if k == "CHOICE":
        alt, x = v
        c = next(c for c in t["comps"] if c["id"] == alt)
        return "(choice %s %s)" % (alt, val_sexp(c["type"], x, env))
    if k in ("SEQUENCE OF", "SET OF"):
        return "(" + " ".join(["list"] + [val_sexp(t["elem"], x, env) for x in v]) + ")"
    raise ValueError(k)

# ------------------------------------------------------------------ random types
class Gen:
    def __init__(self, rng, avoid=None, kinds=None, max_depth=3, tagdefault=None, allow_ext=True, allow_tags=True,
                 allow_constraints=True, allow_default=True, allow_recursion=False):
        self.r = rng
        self.avoid = avoid or Avoid()
        self.kinds = kinds or PRIM_KINDS
        self.max_depth = max_depth
        self.tagdefault = tagdefault
        self.allow_ext, self.allow_tags, self.allow_constraints = allow_ext, allow_tags, allow_constraints
        self.allow_default = allow_default
        self.allow_recursion = allow_recursion
        self.idn = 0

    def ident(self, p="m"):
        self.idn += 1
        return f"{p}{self.idn}"

    # --- constraints
    def int_cons(self):
        r = self.r
        shape = r.choice(["none", "none", "small", "byte", "u16", "u32", "signed", "single", "semi0", "semi", "neg", "big", "u64"])
        ext = self.allow_ext and r.random() < 0.2
        if shape == "none" or not self.allow_constraints: return None
        if shape == "small": lo = r.choice([0, 0, 1, -1, 3]); return cons(lo, lo + r.choice([1, 2, 5, 6, 7, 14, 15, 16]), ext)
        if shape == "byte": lo = r.choice([0, 1, -128]); return cons(lo, lo + r.choice([127, 254, 255, 256]), ext)
        if shape == "u16": return cons(r.choice([0, 1, -32768]), r.choice([32767, 65534, 65535, 65536]), ext)
        if shape == "u32": return cons(r.choice([0, -2147483648]), r.choice([2147483647, 4294967294, 4294967295]), ext)
        if shape == "signed": b = r.choice([7, 8, 15, 16, 31]); return cons(-(1 << b), (1 << b) - 1, ext)
        if shape == "single": v = r.choice([0, 1, 5, -3, 255, 65536]); return cons(v, v, ext)
        if shape == "semi0": return cons(0, None, ext)
        if shape == "semi": return cons(r.choice([1, -1, 5, -256, 1000]), None, ext) if not self.avoid.semi_constrained_nonzero_lb else cons(0, None, ext)
        if shape == "neg": return cons(None, r.choice([0, -1, 100]), ext)
        if shape == "big": return cons(r.choice([0, -(1 << 62)]), r.choice([(1 << 62), (1 << 63) - 1]), ext)
        if shape == "u64": return cons(0, (1 << 63) - 1 if self.avoid.unsigned_ge_2_63 else (1 << 64) - 1, ext)

    def size_cons(self, maxhi=12):
        r = self.r
        if not self.allow_constraints or r.random() < 0.4: return None
        ext = self.allow_ext and r.random() < 0.2
        shape = r.choice(["fixed", "range", "range0", "semi", "one"])
        if shape == "fixed": n = r.choice([0, 1, 2, 3, 4, 8]); return cons(n, n, ext)
        if shape == "range": lo = r.choice([0, 1, 2]); return cons(lo, lo + r.choice([1, 2, 3, 6, maxhi]), ext)
        if shape == "range0": return cons(0, r.choice([1, 7, 8, 255, 256, 65535, 65536]), ext)
        if shape == "semi": return cons(r.choice([0, 1, 2]), None, ext)
        if shape == "one": return cons(1, 1, ext)

    def prim(self):
        r = self.r
        k = r.choice(self.kinds)
        t = {"k": k}
        if k == "INTEGER": t["cons"] = self.int_cons()
        elif k == "ENUMERATED":
            n = r.choice([1, 2, 3, 4, 8, 9])
            names = [self.ident("e") for _ in range(n)]
            if n >= 2 and r.random() < 0.3:      # identifiers that are proper prefixes of one another (name lookup by bsearch/strcmp)
                base = names[0]
                names = [base] + [base + suf for suf in r.sample(["x", "xy", "Hold", "HoldOn", "a", "ab", "z", "0", "00"], n - 1)]
                r.shuffle(names)
            if r.random() < 0.5 or not self.avoid.enum_mixed_numbering:
                t["items"] = [(nm, None) for nm in names]
            else:
                vals = sorted(r.sample(range(-5, 300), n))
                t["items"] = list(zip(names, vals))
            if self.allow_ext and r.random() < 0.3:
                ne = r.choice([0, 1, 2])
                base = max([v for _, v in t["items"] if v is not None] + [n - 1]) + 1
                t["ext"] = [(self.ident("x"), base + i + (0 if t["items"][0][1] is None else 3)) for i in range(ne)]
                if t["items"][0][1] is None: t["ext"] = [(nm, None) for nm, _ in t["ext"]]
        elif k in ("BIT STRING", "OCTET STRING") or k in STRING_KINDS:
            t["size"] = self.size_cons()
            if k in ("IA5String", "VisibleString", "PrintableString", "NumericString") and self.allow_constraints and r.random() < 0.25:
                al = ALPHABET[k]
                if k == "NumericString": t["alpha"] = [("0", "9")] if r.random() < 0.5 else [("0", "3"), " "]
                else: t["alpha"] = r.choice([[("A", "Z")], [("a", "f"), ("0", "9")], ["A", "B", "C"], [("A", "Z"), ("a", "z"), " "]])
        return t

    def maybe_tag(self, t, used, must=False):
        r = self.r
        if not self.allow_tags or (self.tagdefault == "AUTOMATIC" and not must): return t
        if must or r.random() < 0.3:
            n = r.choice([0, 1, 2, 5, 30, 31, 127, 128, 16383, 16384, 1000000])
            while ("ctx", n) in used: n += 1
            used.add(("ctx", n))
            mode = r.choice(["", "IMPLICIT", "EXPLICIT"])
            t = dict(t); t["tag"] = ("ctx", n, mode)
        return t

    def default_for(self, t):
        """(python value, ASN.1 text) or None"""
        r = self.r
        k = t["k"]
        if k == "BOOLEAN": b = r.random() < 0.5; return (b, "TRUE" if b else "FALSE")
        if k == "INTEGER":
            c = t.get("cons")
            v = 0 if in_cons(c, 0) else (c["lo"] if c and c["lo"] is not None else c["hi"])
            if c and c.get("ext"): return None
            if v is None or v < 0: return None      # F43: negative DEFAULT => uncompilable identifier
            return (v, str(v))
        if k == "ENUMERATED":
            n, v = t["items"][0]
            if v is not None and v < 0: return None      # F43: negative DEFAULT => uncompilable identifier
            return (v if v is not None else 0, n)
        return None

    def gen_type(self, depth=0, env_names=()):
        r = self.r
        env_types = getattr(self, "env_types", {})
        if depth >= self.max_depth or r.random() < (0.25 if depth == 0 else 0.5):
            if env_names and r.random() < 0.2: return {"k": "REF", "name": r.choice(list(env_names))}
            return self.prim()
        k = r.choice(["SEQUENCE", "SEQUENCE", "SET", "CHOICE", "SEQUENCE OF", "SET OF"])
        if k in ("SEQUENCE OF", "SET OF"):
            el = self.gen_type(depth + 1, env_names)
            if el["k"] in ("SEQUENCE OF", "SET OF") or (el["k"] == "INTEGER" and el.get("cons") and int_repr(el["cons"]) == "ulong"):
                # F44: an inline unsigned-long INTEGER element makes asn1c emit uncompilable C
                # asn1c mis-parses directly nested constrained "OF" types (parser assertion F33 /
                # constraint mis-association): nest through a named type instead
                self.hoist_n = getattr(self, "hoist_n", 0) + 1
                hn = f"H{self.hoist_n}"
                self.hoisted.append((hn, el)); self.env_types[hn] = el
                el = {"k": "REF", "name": hn}
            return {"k": k, "elem": el, "size": self.size_cons(maxhi=4)}
        n = r.choice([1, 2, 2, 3, 4, 5])
        comps = []
        used = set()
        ext = None
        auto = self.tagdefault == "AUTOMATIC"
        if self.allow_ext and r.random() < 0.35: ext = r.randrange(1, n + 1)
        prev_optional_tags = []
        for i in range(n):
            ct = self.gen_type(depth + 1, env_names)
            c = {"id": self.ident(), "type": ct}
            if not auto:
                # keep outermost tags distinct the simple way: every component of SET/CHOICE gets its own
                # context tag; SEQUENCE components too (C11 explores the untagged space)
                mode = r.choice(["", "", "IMPLICIT", "EXPLICIT"])
                inner = resolve_kind(ct, env_types)
                if inner == "CHOICE" and mode == "IMPLICIT": mode = "EXPLICIT"
                num = i if r.random() < 0.7 else r.choice([30, 31, 127, 128, 16383, 16384]) + i
                while ("ctx", num) in used: num += 1
                used.add(("ctx", num))
                ct = dict(ct); ct["tag"] = ("ctx", num, mode); c["type"] = ct
            if k != "CHOICE":
                x = r.random()
                is_ext_add = ext is not None and i >= ext
                if x < 0.3 or (is_ext_add and x < 0.6): c["opt"] = "OPTIONAL"
                elif x < 0.45 and self.allow_default and not is_ext_add:
                    d = self.default_for(strip_tag(ct))
                    if d: c["opt"] = ("DEFAULT", d[1], d[0])
            comps.append(c)
        t = {"k": k, "comps": comps}
        if ext is not None: t["ext"] = ext
        return t

    def gen_module(self, name, ntypes=12):
        r = self.r
        types = []
        names = []
        for i in range(ntypes):
            tn = f"T{i}"
            self.env_types = dict(types)
            self.hoisted = []
            t = self.gen_type(0, names[:] if i else ())
            types.extend(self.hoisted)
            types.append((tn, t)); names.append(tn)
        if self.allow_recursion:
            # a recursive type through SEQUENCE OF / OPTIONAL / CHOICE
            types.append(("Rec", {"k": "SEQUENCE", "comps": [
                {"id": "v", "type": {"k": "INTEGER", "cons": None, "tag": None if self.tagdefault == "AUTOMATIC" else ("ctx", 0, "")}},
                {"id": "kids", "type": {"k": "SEQUENCE OF", "elem": {"k": "REF", "name": "Rec"}, "size": None,
                                        "tag": None if self.tagdefault == "AUTOMATIC" else ("ctx", 1, "")}, "opt": "OPTIONAL"}]}))
        return {"name": name, "tagdefault": self.tagdefault, "types": types}

def int_repr(c):
    """asn1c_type_fits_long with its 32-bit assumptions: 'long', 'ulong' or None (= INTEGER_t)"""
    if c is None: return "long"
    lo, hi = c["lo"], c["hi"]
    if lo is not None and lo >= 0 and hi is None: return "ulong"
    if lo is None or hi is None: return None
    if lo >= -(1 << 31) and hi <= (1 << 31) - 1: return "long"
    if lo >= 0 and hi <= (1 << 32) - 1: return "ulong"
    return None

def strip_tag(t):
    t = dict(t); t.pop("tag", None); return t

def resolve_kind(t, env=None):
    if t["k"] == "REF" and env: return resolve_kind(env[t["name"]], env)
    return t["k"]

# ------------------------------------------------------------------ values
def enum_values(t):
    """(root values, extension values) with X.680 numbering for unnumbered items (0,1,2,..)"""
    root = []
    nxt = 0
    for n, v in t["items"]:
        if v is None: v = nxt
        root.append(v); nxt = v + 1
    extv = []
    for n, v in (t.get("ext") or []):
        if v is None: v = nxt
        extv.append(v); nxt = v + 1
    return root, extv

def int_boundaries(c):
    s = set()
    if c is None or c["ext"] or c["lo"] is None or c["hi"] is None:
        for k in (0, 7, 8, 15, 16, 23, 24, 31, 32, 55, 56, 62):
            for d in (-1, 0, 1):
                s.add((1 << k) + d); s.add(-(1 << k) + d)
        s.update([0, 1, -1, 127, 128, 255, 256, -128, -129])
    if c is not None:
        for e in (c["lo"], c["hi"]):
            if e is not None: s.update([e - 1, e, e + 1])
    s = {v for v in s if -(1 << 63) <= v < (1 << 63)}
    return s

class ValGen:
    def __init__(self, rng, env, avoid=None):
        self.r, self.env, self.avoid = rng, env, avoid or Avoid()

    def values(self, t, n, depth=0):
        """up to n values of type t, boundary-first then random"""
        out = []
        seen = set()
        tries = 0
        while len(out) < n and tries < n * 4:
            v = self.value(t, tries, depth)
            tries += 1
            key = repr(v)
            if key in seen: continue
            seen.add(key); out.append(v)
        return out

    def value(self, t, i=None, depth=0):
        r = self.r
        k = t["k"]
        if i is None: i = r.randrange(1 << 30)
        if k == "REF": return self.value(self.env[t["name"]], i, depth)
        if k == "BOOLEAN": return bool(i % 2)
        if k == "NULL": return None
        if k == "INTEGER":
            c = t.get("cons")
            cands = sorted(v for v in int_boundaries(c) if in_cons(c, v) or (c and c["ext"]))
            if c and c["ext"] and self.avoid.__dict__.get("no_out_of_root"): cands = [v for v in cands if in_cons(c, v)]
            if c and int_repr(c) == "ulong": cands = [v for v in cands if v >= 0]     # stored in unsigned long
            if i < len(cands): return cands[i]
            if c and c["lo"] is not None and c["hi"] is not None: return r.randint(c["lo"], c["hi"])
            lo = c["lo"] if c and c["lo"] is not None else -(1 << 63)
            hi = c["hi"] if c and c["hi"] is not None else (1 << 63) - 1
            bits = r.choice([4, 8, 16, 31, 32, 33, 62])
            v = r.getrandbits(bits) * r.choice([1, -1])
            return min(max(v, lo), hi)
        if k == "ENUMERATED":
            root, extv = enum_values(t)
            allv = root + extv
            return allv[i % len(allv)]
        if k == "REAL":
            specials = [0, 0x8000000000000000, 0x7ff0000000000000, 0xfff0000000000000, 0x3ff0000000000000,
                        0xbff8000000000000, 0x4000000000000001, 0x7fefffffffffffff, 0x0010000000000000, 0x3fb999999999999a]
            if i < len(specials): return specials[i]
            e = r.randrange(1, 2047); m = r.getrandbits(52) if r.random() < 0.5 else (r.getrandbits(8) << r.randrange(0, 44))
            return (r.getrandbits(1) << 63) | (e << 52) | m
        if k in ("OCTET STRING", "BIT STRING") or k in STRING_KINDS:
            self._no_oor = (k == "BIT STRING" and self.avoid.bitstring_trailing_zero)   # F19 family: padded up to lb
            n = self.length_for(t.get("size"), i)
            self._no_oor = False
            if k == "OCTET STRING": return bytes(r.getrandbits(8) for _ in range(n))
            if k == "BIT STRING":
                # n = number of bits
                nbytes = (n + 7) // 8
                unused = nbytes * 8 - n
                b = bytearray(r.getrandbits(8) for _ in range(nbytes))
                if nbytes:
                    b[-1] &= (0xff << unused) & 0xff
                    if self.avoid.bitstring_trailing_zero: b[-1] |= (1 << unused)   # last bit set
                return (bytes(b), unused)
            return self.string(t, n)
        if k == "OBJECT IDENTIFIER":
            a0 = i % 3
            a1 = r.choice([0, 1, 39]) if a0 < 2 else r.choice([0, 39, 40, 47, 48, 1000, 999999])
            rest = [r.choice([0, 1, 127, 128, 16383, 16384, 2097151, 2097152, 4294967295, r.getrandbits(20)]) for _ in range(r.choice([0, 1, 3, 6]))]
            return [a0, a1] + rest
        if k == "RELATIVE-OID":
            return [r.choice([0, 1, 127, 128, 16383, 16384, 4294967295, r.getrandbits(20)]) for _ in range(r.choice([1, 2, 5]))]
        if k == "UTCTime":
            return r.choice(["700101000000Z", "991231235959Z", "000101000000Z", "491231235959Z", "500101000000Z", "240229120000Z"])
        if k == "GeneralizedTime":
            return r.choice(["19700101000000Z", "20240229120000Z", "99991231235959Z", "20380119031408Z", "19000101000000.5Z", "20010203040506.123Z"])
        if k in ("SEQUENCE", "SET"):
            v = {}
            ext = t.get("ext")
            mode = i % 4      # 0: all present, 1: none of the optionals, else random
            for ci, c in enumerate(t["comps"]):
                opt = c.get("opt")
                if opt is not None:
                    present = (mode == 0) or (mode >= 2 and r.random() < 0.5)
                    if mode == 1: present = False
                    if not present: continue
                x = self.value(c["type"], None if mode else 0, depth + 1)
                if isinstance(opt, tuple) and x == opt[2]:
                    continue      # a value equal to the DEFAULT is represented as absent
                v[c["id"]] = x
            return v
        if k == "CHOICE":
            comps = t["comps"]
            c = comps[i % len(comps)]
            return (c["id"], self.value(c["type"], None, depth + 1))
        if k in ("SEQUENCE OF", "SET OF"):
            n = self.length_for(t.get("size"), i, small=True)
            if depth > 4: n = min(n, max(1, (t.get("size") or {}).get("lo") or 0))
            return [self.value(t["elem"], None, depth + 1) for _ in range(n)]
        raise ValueError(k)

    def length_for(self, c, i, small=False):
        r = self.r
        edges = []
        if c is None: edges = [0, 1, 2, 3] if small else [0, 1, 2, 5, 127, 128, 130]
        else:
            lo = c["lo"] or 0
            hi = c["hi"] if c["hi"] is not None else lo + (4 if small else 130)
            edges = sorted({lo, min(lo + 1, hi), hi, max(hi - 1, lo)})
            edges = [e for e in edges if e <= (8 if small else 300)] or [lo]
            if c["ext"] and not self.avoid.__dict__.get("no_out_of_root") and not getattr(self, "_no_oor", False):
                if hi + 1 <= (8 if small else 300): edges.append(hi + 1)
                if lo > 0: edges.append(lo - 1)
        if i < len(edges): return edges[i]
        return r.choice(edges)

    def string(self, t, n):
        r = self.r
        k = t["k"]
        if t.get("alpha"):
            al = []
            for a in t["alpha"]:
                if isinstance(a, tuple): al += [chr(c) for c in range(ord(a[0]), ord(a[1]) + 1)]
                else: al.append(a)
        elif k in ALPHABET: al = ALPHABET[k]
        elif k == "UTF8String": al = list("aZ09 ") + ["é", "Ж", "€", "\U0001f600", "߿", "ࠀ", "￿"]
        elif k == "BMPString": al = list("aZ0 ") + ["é", "Ж", "€", "￿", "\x01"]
        else: al = list("aZ0 ") + ["é", "€", "\U0001f600", "\U0010ffff"]
        return "".join(r.choice(al) for _ in range(n))

def contains_kind(t, env, kinds, _seen=None):
    """does type t (following references) contain a type of one of `kinds`?"""
    _seen = _seen or set()
    k = t["k"]
    if k in kinds: return True
    if k == "REF":
        if t["name"] in _seen: return False
        return contains_kind(env[t["name"]], env, kinds, _seen | {t["name"]})
    if k in ("SEQUENCE", "SET", "CHOICE"):
        return any(contains_kind(c["type"], env, kinds, _seen) for c in t["comps"])
    if k in ("SEQUENCE OF", "SET OF"):
        return contains_kind(t["elem"], env, kinds, _seen)
    return False

def norm_sexp(t, sx, env):
    """type-directed normal form of a parsed value s-expression (abstract-value equality):
    SET OF elements as a sorted multiset, SET members by name, DEFAULT-valued members dropped."""
    k = t["k"]
    if k == "REF": return norm_sexp(env[t["name"]], sx, env)
    if not isinstance(sx, list) or not sx: return sx
    if k in ("SEQUENCE", "SET") and sx[0] in ("seq", "set"):
        comps = {c["id"]: c for c in t["comps"]}
        out = []
        for m in sx[1:]:
            if not isinstance(m, list) or len(m) != 2 or m[0] not in comps: out.append(m); continue
            c = comps[m[0]]
            v = norm_sexp(c["type"], m[1], env)
            opt = c.get("opt")
            if isinstance(opt, tuple):
                from . import sexp as _s
                dv = norm_sexp(c["type"], _s.parse(val_sexp(c["type"], opt[2], env)), env)
                if v == dv: continue
            out.append([m[0], v])
        return ["struct"] + sorted(out, key=lambda m: str(m[0]))
    if k == "CHOICE" and sx[0] == "choice" and len(sx) == 3:
        c = next((c for c in t["comps"] if c["id"] == sx[1]), None)
        return ["choice", sx[1], norm_sexp(c["type"], sx[2], env) if c else sx[2]]
    if k in ("SEQUENCE OF", "SET OF") and sx[0] == "list":
        els = [norm_sexp(t["elem"], e, env) for e in sx[1:]]
        if k == "SET OF": els = sorted(els, key=repr)
        return ["list"] + els
    if k == "BIT STRING" and sx[0] == "bs" and len(sx) == 3:
        return sx
    return sx

def same_value(t, a, b, env):
    from . import sexp as _s
    try:
        return norm_sexp(t, _s.parse(a), env) == norm_sexp(t, _s.parse(b), env)
    except Exception:
        return a == b

BIG_LENGTHS = [0, 1, 127, 128, 129, 255, 256, 8191, 8192, 16383, 16384, 16385, 32767, 32768, 49151, 49152, 65535, 65536, 65537]

def boundary_module(rng, quick=True):
    """A fixed module exercising the length / width / tag boundaries, with its explicit values.
    Returns (module, {type name: [python values]})."""
    T = lambda k, **kw: dict(k=k, **kw)
    types = [
        ("BOs", T("OCTET STRING")), ("BBs", T("BIT STRING")), ("BIa", T("IA5String")), ("BU8", T("UTF8String")),
        ("BBmp", T("BMPString")),
        ("BSoB", T("SEQUENCE OF", elem=T("BOOLEAN"), size=None)),
        ("BSoI", T("SEQUENCE OF", elem=T("INTEGER", cons=cons(0, 7)), size=None)),
        ("BStI", T("SET OF", elem=T("INTEGER", cons=cons(0, 255)), size=None)),
        ("BOsC", T("OCTET STRING", size=cons(0, 70000))), ("BOsE", T("OCTET STRING", size=cons(1, 2, True))),
        ("BSoC", T("SEQUENCE OF", elem=T("BOOLEAN"), size=cons(0, 70000))),
        ("BSoN", T("SEQUENCE OF", elem=T("NULL"), size=None)),      # zero-width elements: decoders cut at 200 (C15)
    ]
    vals = {}
    lens = BIG_LENGTHS if not quick else [0, 1, 127, 128, 129, 8191, 8192, 16383, 16384, 16385, 32768, 49152, 65535, 65536]
    def rb(n): return bytes(rng.getrandbits(8) for _ in range(n))
    vals["BOs"] = [rb(n) for n in lens]
    vals["BOsC"] = [rb(n) for n in lens]
    vals["BOsE"] = [rb(n) for n in (1, 2, 0, 3, 127, 128, 16384)]
    vals["BBs"] = [(rb((n + 7) // 8)[:-1] + b"\x01" if n % 8 == 0 and n else (rb((n + 7) // 8 - 1) + bytes([1 << (8 - n % 8)]) if n else b""), (8 - n % 8) % 8) for n in lens + [3, 9, 8 * 16384 + 1]]
    vals["BIa"] = ["".join(chr(rng.randrange(0x20, 0x7f)) for _ in range(n)) for n in lens]
    vals["BU8"] = ["".join(rng.choice("aé€") for _ in range(n)) for n in lens[:10]]
    vals["BBmp"] = ["".join(rng.choice("aé€") for _ in range(n)) for n in lens[:11]]
    llens = [n for n in lens if n <= 16385]
    vals["BSoB"] = [[bool(rng.getrandbits(1)) for _ in range(n)] for n in llens]
    vals["BSoN"] = [[None] * n for n in (0, 1, 127, 128, 199, 200)]
    vals["BSoI"] = [[rng.randrange(8) for _ in range(n)] for n in (0, 1, 127, 128, 199, 200)]     # > 200: F47
    vals["BStI"] = [[rng.randrange(256) for _ in range(n)] for n in (0, 1, 2, 127, 128, 200)]
    vals["BSoC"] = [[bool(rng.getrandbits(1)) for _ in range(n)] for n in llens]
    # integer width boundaries (PER range_bits, OER widths)
    for i, (lo, hi) in enumerate([(0, 1), (0, 2), (0, 127), (0, 128), (0, 254), (0, 255), (0, 256), (1, 256), (0, 65535), (0, 65536),
                                   (0, 4294967295), (0, 4294967296), (-128, 127), (-129, 127), (-128, 128), (-32768, 32767), (-32769, 32767),
                                   (-2147483648, 2147483647), (-2147483649, 2147483647), (3, 3), (-5, -5), (0, (1 << 63) - 1),
                                   (-(1 << 63), (1 << 63) - 1), (100, 100 + 255), (100, 100 + 256), (0, 16777215), (0, 16777216)]):
        n = f"BI{i}"
        types.append((n, T("INTEGER", cons=cons(lo, hi))))
        vs = {lo, hi, min(lo + 1, hi), max(hi - 1, lo), (lo + hi) // 2}
        for e in (0, 127, 128, 255, 256, 65535, 65536, -1, -128, -129):
            if lo <= e <= hi: vs.add(e)
        vals[n] = sorted(vs)
    for i, c in enumerate([None, cons(0, None), cons(None, 0), cons(0, 7, True), cons(-1, 1, True), cons(0, 255, True)]):
        n = f"BJ{i}"
        types.append((n, T("INTEGER", cons=c)))
        vals[n] = sorted(v for v in int_boundaries(c) if (c is None or in_cons(c, v) or c["ext"]) and not (c and int_repr(c) == "ulong" and v < 0))
    # tag number boundaries (BER identifier octets; UPER/OER index)
    tagnums = [0, 30, 31, 32, 127, 128, 129, 16383, 16384, 2097151, 2097152, 268435455]
    types.append(("BTagS", T("SEQUENCE", comps=[{"id": f"t{n}", "type": T("INTEGER", cons=cons(0, 255), tag=("ctx", n, m)), "opt": "OPTIONAL"}
                                                for n, m in zip(tagnums, ["IMPLICIT", "EXPLICIT"] * 6)])))
    vals["BTagS"] = [{f"t{n}": n % 256 for n in tagnums}, {}, {"t31": 1}, {"t16384": 2, "t0": 0}]
    types.append(("BTagC", T("CHOICE", comps=[{"id": (f"c{n}" if cl in ("ctx",) or (cl, n) in (("app", 5), ("priv", 6), ("app", 16383)) else f"{cl}{n}"), "type": T("NULL", tag=(cl, n, "")) } for cl, n in
                                               [("ctx", 0), ("ctx", 31), ("app", 5), ("priv", 6), ("ctx", 127), ("ctx", 128), ("ctx", 16384), ("app", 16383),
                                                ("ctx", 62), ("ctx", 63), ("ctx", 64), ("priv", 63), ("app", 30)]])))
    vals["BTagC"] = [(f"c{n}", None) for n in (0, 31, 5, 6, 127, 128, 16384, 16383, 62, 63, 64)]
    # open types (extension additions / extension alternatives) whose inner encoding hits the 16K fragmentation boundaries
    types.append(("BExtS", T("SEQUENCE", comps=[{"id": "a", "type": T("BOOLEAN", tag=("ctx", 0, ""))},
                                                {"id": "x", "type": T("OCTET STRING", size=None, tag=("ctx", 1, "")), "opt": "OPTIONAL"}], ext=1)))
    types.append(("BExtC", T("CHOICE", comps=[{"id": "a", "type": T("NULL", tag=("ctx", 0, ""))},
                                              {"id": "x", "type": T("OCTET STRING", size=None, tag=("ctx", 1, ""))}], ext=1)))
    osz = [0, 1, 125, 126, 127, 16381, 16382, 16383, 32765, 32766, 49149, 65532, 65533]
    # ENUMERATED identifiers that are proper prefixes of one another (XER name lookup)
    types.append(("BEnP", T("ENUMERATED", items=[(n, None) for n in ("off", "on", "onHold", "o", "onHoldLonger", "offline", "onH")])))
    vals["BEnP"] = list(range(7))
    types.append(("BEnPS", T("SEQUENCE OF", elem=T("ENUMERATED", items=[(n, None) for n in ("b", "a", "ab", "abc", "ba")]), size=None)))
    vals["BEnPS"] = [[0, 1, 2, 3, 4], [3, 2, 1], []]
    # SIZE upper bounds around 64K (X.691 10.9.4.1: ub >= 64K means the length is a general length determinant)
    for i, (lo, hi) in enumerate([(1, 65536), (65536, 65536), (0, 65535), (65535, 65535), (1, 65535), (0, 65536), (65535, 65536), (0, 65537)]):
        types.append((f"BSzO{i}", T("OCTET STRING", size=cons(lo, hi))))
        vals[f"BSzO{i}"] = [rb(n) for n in sorted({lo, hi, min(lo + 2, hi)})]
        if lo > 16385: continue        # element lists that long exceed the drivers' line protocol
        types.append((f"BSzL{i}", T("SEQUENCE OF", elem=T("BOOLEAN"), size=cons(lo, hi))))
        vals[f"BSzL{i}"] = [[bool(rng.getrandbits(1)) for _ in range(n)] for n in sorted({lo, min(lo + 2, hi)})]
    vals["BExtS"] = [{"a": True}] + [{"a": False, "x": rb(n)} for n in osz]
    vals["BExtC"] = [("a", None)] + [("x", rb(n)) for n in osz]
    return {"name": "BND", "tagdefault": "IMPLICIT", "types": types}, vals

# ------------------------------------------------------------------ Lean-side renderings (L2 model)
def _tag_sx(t):
    tg = t.get("tag")
    if not tg: return "-"
    return "(%s %d %s)" % (tg[0], tg[1], {"": "d", "IMPLICIT": "i", "EXPLICIT": "e"}[tg[2]])

def _cons_sx(c):
    if c is None: return "-"
    return "(%s %s %d)" % ("MIN" if c["lo"] is None else c["lo"], "MAX" if c["hi"] is None else c["hi"], 1 if c["ext"] else 0)

def ty_sexp(t, env):
    k = t["k"]; tg = _tag_sx(t)
    if k == "REF": return f"(REF {tg} {t['name']})"
    if k in ("BOOLEAN", "NULL", "REAL", "UTCTime", "GeneralizedTime"): return f"({k} {tg})"
    if k == "OBJECT IDENTIFIER": return f"(OID {tg})"
    if k == "RELATIVE-OID": return f"(ROID {tg})"
    if k == "INTEGER": return f"(INTEGER {tg} {_cons_sx(t.get('cons'))})"
    if k == "ENUMERATED":
        root, extv = enum_values(t)
        return "(ENUMERATED %s (%s) %s)" % (tg, " ".join(map(str, root)), "-" if t.get("ext") is None else "(" + " ".join(map(str, extv)) + ")")
    if k == "BIT STRING": return f"(BITSTRING {tg} {_cons_sx(t.get('size'))})"
    if k == "OCTET STRING": return f"(OCTETSTRING {tg} {_cons_sx(t.get('size'))})"
    if k in STRING_KINDS:
        al = "-"
        if t.get("alpha"):
            cs = []
            for a in t["alpha"]:
                if isinstance(a, tuple): cs += list(range(ord(a[0]), ord(a[1]) + 1))
                else: cs.append(ord(a))
            al = "(" + " ".join(map(str, sorted(set(cs)))) + ")"
        return f"(STR {k} {tg} {_cons_sx(t.get('size'))} {al})"
    if k in ("SEQUENCE", "SET", "CHOICE"):
        comps = []
        for c in t["comps"]:
            o = c.get("opt")
            if k == "CHOICE": comps.append(f"({c['id']} {ty_sexp(c['type'], env)})")
            else:
                osx = "m" if o is None else ("o" if o == "OPTIONAL" else "(d %s)" % val_pos_sexp(c["type"], o[2], env))
                comps.append(f"({c['id']} {ty_sexp(c['type'], env)} {osx})")
        ext = "-" if t.get("ext") is None else str(t["ext"])
        return f"({k} {tg} {ext} ({' '.join(comps)}))"
    if k in ("SEQUENCE OF", "SET OF"):
        return f"({'SEQOF' if k == 'SEQUENCE OF' else 'SETOF'} {tg} {_cons_sx(t.get('size'))} {ty_sexp(t['elem'], env)})"
    raise ValueError(k)

def module_sexp(m):
    env = dict(m["types"])
    return "(module %s %s)" % (m.get("tagdefault") or "none", " ".join(f"({n} {ty_sexp(t, env)})" for n, t in m["types"]))

def val_pos_sexp(t, v, env):
    """positional value syntax of the Lean L2 model"""
    k = t["k"]
    if k == "REF": return val_pos_sexp(env[t["name"]], v, env)
    if k in ("SEQUENCE", "SET"):
        return "(seq" + "".join(" " + (val_pos_sexp(c["type"], v[c["id"]], env) if c["id"] in v else "-") for c in t["comps"]) + ")"
    if k == "CHOICE":
        i = next(i for i, c in enumerate(t["comps"]) if c["id"] == v[0])
        return "(choice %d %s)" % (i, val_pos_sexp(t["comps"][i]["type"], v[1], env))
    if k in ("SEQUENCE OF", "SET OF"):
        return "(list" + "".join(" " + val_pos_sexp(t["elem"], x, env) for x in v) + ")"
    if k == "ENUMERATED": return "(int %d)" % v
    return val_sexp(t, v, env).replace("(oid ", "(os ")

def pos_to_named(t, sx, env):
    """convert a parsed positional value (Lean output) into the named form dumped by the C driver"""
    k = t["k"]
    if k == "REF": return pos_to_named(env[t["name"]], sx, env)
    if not isinstance(sx, list): return sx
    if k in ("SEQUENCE", "SET") and sx and sx[0] == "seq":
        out = ["seq" if k == "SEQUENCE" else "set"]
        for c, x in zip(t["comps"], sx[1:]):
            if x == "-": continue
            out.append([c["id"], pos_to_named(c["type"], x, env)])
        return out
    if k == "CHOICE" and sx and sx[0] == "choice":
        c = t["comps"][int(sx[1])]
        return ["choice", c["id"], pos_to_named(c["type"], sx[2], env)]
    if k in ("SEQUENCE OF", "SET OF") and sx and sx[0] == "list":
        return ["list"] + [pos_to_named(t["elem"], x, env) for x in sx[1:]]
    if k == "ENUMERATED" and sx and sx[0] == "int": return ["enum", sx[1]]
    if k in ("OBJECT IDENTIFIER", "RELATIVE-OID") and sx and sx[0] == "os": return ["oid", sx[1]]
    return sx
