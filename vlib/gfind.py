"""Known-finding plumbing for checks over generated modules: type features, skip regions
(the generator-side `Dom` guards) and witness replay."""
import re
from . import genmod, bundle, build

def fits_long(c):
    """asn1c_type_fits_long with its 32-bit assumptions: returns 'long', 'ulong' or None (INTEGER_t)"""
    if c is None or c.get("ext"): return "long" if c is None else ("long" if _fits(c) else None)
    return _fits(c)

def _fits(c):
    lo, hi = c["lo"], c["hi"]
    if lo is not None and lo >= 0 and hi is None: return "ulong"
    if lo is None or hi is None: return None
    if lo >= -(1 << 31) and hi <= (1 << 31) - 1: return "long"
    if lo >= 0 and hi <= (1 << 32) - 1: return "ulong"
    return None

def features(t, env, out=None, inline=False, seen=None, tagdefault=None):
    top = out is None
    out = set() if out is None else out
    if top and t["k"] == "REF" and genmod.resolve_kind(t, env) == "CHOICE": out.add("choice_alias")
    if top and t["k"] == "REF" and genmod.resolve_kind(t, env) == "ENUMERATED": out.add("enum_alias")
    seen = seen or set()
    k = t["k"]
    if k == "REF":
        if t["name"] in seen: return out
        tgt = env[t["name"]]
        if tgt["k"] == "REF" and genmod.resolve_kind(tgt, env) == "CHOICE": out.add("choice_alias")
        if tgt["k"] == "REF" and genmod.resolve_kind(tgt, env) == "ENUMERATED": out.add("enum_alias")
        return features(tgt, env, out, False, seen | {t["name"]}, tagdefault)
    out.add(k)
    if k == "INTEGER":
        c = t.get("cons")
        if c is not None and c["lo"] is not None and c["hi"] is not None and not c["ext"] and _fits(c) is None:
            out.add("wide_int_fixed_oer")
        if c is not None and c["lo"] is not None and c["hi"] is None and c["lo"] != 0: out.add("semi_nonzero_lb")
    c_ = t.get("cons") if k == "INTEGER" else t.get("size")
    if c_ is not None and (c_["lo"] in (0, None)) and c_["hi"] is None and (k == "INTEGER" or k in ("OCTET STRING", "BIT STRING", "SEQUENCE OF", "SET OF") or k in genmod.STRING_KINDS):
        out.add("selfloop_constraint")     # vacuous constraint: the generated checker falls back to the underlying type (F48, fixed: it called itself)
    if k == "NumericString" and not inline and not t.get("size") and not t.get("alpha"):
        out.add("named_plain_numeric")
    if k == "PrintableString" and inline and not t.get("size") and not t.get("alpha"):
        out.add("inline_printable")
    if k in ("SEQUENCE", "SET", "CHOICE"):
        for c in t["comps"]:
            tg = c["type"].get("tag")
            if k == "CHOICE" and tg and tg[1] >= 128: out.add("choice_tag_ge128")
            features(c["type"], env, out, True, seen, tagdefault)
        if t.get("ext") is not None: out.add("ext:" + k)
    if k in ("SEQUENCE OF", "SET OF"):
        features(t["elem"], env, out, True, seen, tagdefault)
    return out

def replay_witnesses(ctx, driver_sources=("gen_driver.c", "ops_gen_core.c", "reflect.c")):
    """Replays the module/type/op witness of every known finding of this property and prints KNOWN-FINDING."""
    for f in ctx.findings:
        w = f.get("witness", {})
        if f.get("status") != "known" or "module" not in w or "op" not in w: continue
        if f.get("property") and f["property"] != ctx.prop: continue  # witness is replayed by the owning property's check (its driver)
        names = w.get("types") or re.findall(r"(\w+)\s*::=", w["module"].split("BEGIN", 1)[1])
        b = bundle.Bundle("w" + f["id"], w["module"], names, driver_sources=driver_sources, **({"opts": tuple(w["opts"])} if w.get("opts") else {}))
        try:
            exe = b.build()
            line = f"@{w.get('type', names[0])} {w['op']}"
            outs, _ = ctx.run_c_bisect(exe, [line])
            o = outs[0] or ""
            exp = w.get("expect")
            still = re.search(exp, o) if exp else (w.get("c_output", "\0") in o or o.startswith("CRASH"))
            if still: ctx.known(f)
            else: ctx.log(f"note: finding {f['id']} no longer reproduces on its witness ({o[:120]})")
        except bundle.Asn1cFailed as e:
            if "asn1c" in w.get("c_output", "") or w.get("asn1c_fails"): ctx.known(f)
            else: ctx.log(f"note: witness module of {f['id']} rejected by asn1c")
        finally:
            b.cleanup()

def replay_fixed_witnesses(ctx, driver_sources=("gen_driver.c", "ops_gen_core.c", "reflect.c")):
    """Regression: the module/type/op witness of every *fixed* finding of this property must no longer show the defect
    (`witness.expect`, the regular expression of the defective output, must not match) on the working tree."""
    n = 0
    for f in ctx.findings:
        w = f.get("witness", {})
        if f.get("status") != "fixed" or f.get("property") != ctx.prop: continue
        if "module" not in w or not w.get("op") or not w.get("expect"): continue
        names = w.get("types") or re.findall(r"(\w+)\s*::=", w["module"].split("BEGIN", 1)[1])
        b = bundle.Bundle("x" + f["id"], w["module"], names, driver_sources=driver_sources, **({"opts": tuple(w["opts"])} if w.get("opts") else {}))
        try:
            exe = b.build()
            line = f"@{w.get('type', names[0])} {w['op']}"
            outs, _ = ctx.run_c_bisect(exe, [line])
            o = str(outs[0] or "CRASH")
            n += 1; ctx.cov["evaluations"] += 1
            if re.search(w["expect"], o):
                ctx.violation(f"{ctx.prop}: fixed finding {f['id']} reproduces again on its witness: {line[:200]} -> {o[:200]} ({f['what'][:160]})",
                              {"module": w["module"], "type": w.get("type", names[0]), "op": line, "c_output": o[:2000], "finding": f["id"]})
            else: ctx.count_nontrivial(("fixed-witness", f["id"]))
        except (bundle.Asn1cFailed, build.BuildError) as e:
            ctx.log(f"note: witness module of fixed finding {f['id']} does not build: {str(e)[-160:]}")
        finally:
            b.cleanup()
    ctx.cov["predicate"]["fixed_witnesses_replayed"] = n
    return n
