"""Shared helpers of the compiler-side checks C10 / C12: module generator wrapper (nasty identifier
pool, name-clash-free variant, multi-file split), parallel asn1c runs, compile / link / header checks
of an emitted file set with cached skeleton objects.  Nothing is kept under /tmp."""
import os, re, shutil, subprocess, hashlib, filecmp, glob, copy
from concurrent.futures import ThreadPoolExecutor
from . import build, genmod, bundle

WORK = os.path.join(build.CACHE, "cgen")

# ------------------------------------------------------------------ generator wrapper
# identifiers that collide with C/C++ keywords (all in res_kwd[]: asn1c capitalises them)
KEYWORD_IDS = ["int", "long", "class", "struct", "register", "default", "double", "switch", "new", "delete",
               "union", "void", "bool", "true", "false", "this", "template", "typename", "operator", "private",
               "public", "static", "const", "volatile", "if", "for", "do", "while", "enum", "signed", "unsigned"]
# hyphenated identifiers (escaping of '-') and awkward shapes
HYPHEN_IDS = ["a-b", "a-b-c", "x-1", "int-1", "is-a", "e-", "id-x", "long-name-with-many-parts", "a1-b2", "z-9"]
# identifiers whose '-' -> '_' image is a C++ keyword / alternative token (former finding F80: looked up after the escaping now)
HYPHEN_KEYWORD_IDS = ["and-eq", "not-eq", "or-eq", "xor-eq", "wchar-t", "char16-t", "char32-t", "const-cast", "dynamic-cast",
                      "reinterpret-cast", "static-cast", "static-assert", "thread-local"]
# identifiers that asn1c itself uses in generated structures
# ("free", "print", "constraint", "t", "decode-ber" ... as ENUMERATED items of a named type: former finding F86, capitalised now)
INTERNAL_IDS = ["present", "choice", "list", "count", "size", "buf", "array", "ctx", "nothing", "member",
                "specifics", "elements", "name", "op", "tags", "main", "value", "type", "oms", "td", "sptr", "st",
                "free", "print", "constraint", "t", "decode-ber", "encode-uper"]
NASTY_TYPE_NAMES = ["Int", "Member", "A-B", "Type-1", "T-PR", "Class", "Struct", "NULL-T", "Asn-DEF", "X-t", "E-PR-x", "Long"]

class NGen(genmod.Gen):
    """genmod.Gen with identifiers drawn also from the nasty pools.  Identifiers stay unique per module
    (asn1c without -fcompound-names needs module-unique identifiers for inline constructed members)."""
    def __init__(self, rng, nasty=0.5, **kw):
        # negative DEFAULTs (F43 repaired), inline unsigned-long elements (F44 repaired) are generated
        if kw.get("avoid") is None: kw["avoid"] = genmod.Avoid(negative_default=False, inline_ulong_element=False)
        super().__init__(rng, **kw)
        self.nasty = nasty
        self.used_ids = set()
        self.pool = KEYWORD_IDS + HYPHEN_IDS + INTERNAL_IDS + HYPHEN_KEYWORD_IDS
    def default_for(self, t):
        """as genmod.Gen, plus: negative INTEGER DEFAULTs and DEFAULTs naming a negatively numbered ENUMERATED item are
        chosen on purpose (former finding F43: the DEFAULT helper identifiers were built from the value's text)"""
        d = super().default_for(t)
        if d is None or self.avoid.negative_default: return d
        if t["k"] == "INTEGER" and self.r.random() < 0.5:
            c = t.get("cons")
            cands = [v for v in (-1, -2, -128, -32769, -2147483648) if genmod.in_cons(c, v)]
            if c and c.get("lo") is not None and c["lo"] < 0: cands.append(c["lo"])
            if cands:
                v = self.r.choice(cands); return (v, str(v))
        if t["k"] == "ENUMERATED":
            negs = [(n, v) for n, v in t["items"] if v is not None and v < 0]
            if negs and self.r.random() < 0.7:
                n, v = self.r.choice(negs); return (v, n)
        return d
    def ident(self, p="m"):
        r = self.r
        if p in ("m", "e", "x") and r.random() < self.nasty:
            for _ in range(4):
                c = r.choice(self.pool)
                if c.endswith("-"): c = c + "z"
                if c not in self.used_ids:
                    self.used_ids.add(c); return c
        return super().ident(p)

def rename_types(m, rng, frac=0.4):
    """give some top-level types nasty names (hyphens, names close to generated ones)"""
    names = [n for n, _ in m["types"]]
    pool = [n for n in NASTY_TYPE_NAMES if n not in names]
    rng.shuffle(pool)
    mapping = {}
    for n in names:
        if pool and rng.random() < frac and n != "Rec": mapping[n] = pool.pop()
    def ren(t):
        t = dict(t)
        if t["k"] == "REF": t["name"] = mapping.get(t["name"], t["name"])
        if "comps" in t: t["comps"] = [dict(c, type=ren(c["type"])) for c in t["comps"]]
        if "elem" in t: t["elem"] = ren(t["elem"])
        return t
    return dict(m, types=[(mapping.get(n, n), ren(t)) for n, t in m["types"]]), mapping

def hoist_anonymous(m):
    """At most one inline constructed/enumerated element type under SEQUENCE OF / SET OF per module
    (asn1c names them all "Member": without -fcompound-names the second one is a name clash).
    Later ones are hoisted into named types.  Returns a new module."""
    extra = []
    state = {"seen": 0, "n": 0}
    def walk(t):
        t = dict(t)
        if "comps" in t: t["comps"] = [dict(c, type=walk(c["type"])) for c in t["comps"]]
        if "elem" in t:
            el = walk(t["elem"])
            if el["k"] in ("SEQUENCE", "SET", "CHOICE", "ENUMERATED", "SEQUENCE OF", "SET OF") or \
               (el["k"] in ("INTEGER", "BIT STRING") and el.get("named")) or \
               (el["k"] == "INTEGER" and el.get("cons") and genmod.int_repr(el["cons"]) == "ulong"):      # own "Member" descriptor (F44 repaired)
                state["seen"] += 1
                if state["seen"] > 1:
                    state["n"] += 1
                    hn = f"An{state['n']}"
                    tag = el.get("tag")
                    extra.append((hn, genmod.strip_tag(el)))
                    el = {"k": "REF", "name": hn}
                    if tag: el["tag"] = tag
            t["elem"] = el
        return t
    types = []
    for n, t in m["types"]:
        nt = walk(t)
        types.extend(extra); del extra[:]
        types.append((n, nt))
    return dict(m, types=types)

def gen_valid(rng, name, ntypes, tagdefault, nasty=0.5, **kw):
    g = NGen(rng, nasty=nasty, tagdefault=tagdefault, **kw)
    m = g.gen_module(name, ntypes)
    m, _ = rename_types(m, rng)
    return hoist_anonymous(m)

def c_ident(name):
    """C identifier of an ASN.1 type reference (harness side; independent of the model)"""
    return re.sub(r"[^A-Za-z0-9]+", "_", name)

# ------------------------------------------------------------------ asn1c runs
def run_asn1c(asn1c, files, outdir, opts=(), timeout=120, env_extra=None, prefix=(), cwd=None):
    """like bundle.run_asn1c but keeps stdout and stderr apart and reports signals.
    Returns dict(rc, out, err, signal)."""
    if outdir: os.makedirs(os.path.join(cwd, outdir) if cwd else outdir, exist_ok=True)
    env = dict(os.environ, ASAN_OPTIONS="detect_leaks=0:abort_on_error=0")
    if env_extra: env.update(env_extra)
    cmd = list(prefix) + [asn1c, "-S", os.path.join(build.REPO, "skeletons")] + (["-D", outdir] if outdir else []) + list(opts) + list(files)
    try:
        p = subprocess.run(cmd, stdout=subprocess.PIPE, stderr=subprocess.PIPE, env=env, timeout=timeout, cwd=cwd)
    except subprocess.TimeoutExpired:
        return {"rc": None, "out": "", "err": "TIMEOUT", "signal": "timeout"}
    out = p.stdout.decode("latin1"); err = p.stderr.decode("latin1")
    sig = None
    if p.returncode < 0: sig = "signal %d" % -p.returncode
    elif "ERROR: AddressSanitizer" in err or "ERROR: AddressSanitizer" in out: sig = "asan"
    elif re.search(r"Assertion .* failed", err): sig = "assert"
    return {"rc": p.returncode, "out": out, "err": err, "signal": sig}

def died(r):
    """the compiler did not end by exit(): signal, failed assertion, sanitizer report, timeout"""
    return r["signal"] is not None

def death_summary(r):
    for l in (r["err"] + "\n" + r["out"]).split("\n"):
        if "Assertion" in l or "ERROR: AddressSanitizer" in l or "SUMMARY" in l: return l.strip()[:220]
    return str(r["signal"])

def pmap(fn, items, jobs=None):
    with ThreadPoolExecutor(jobs or build.JOBS) as ex:
        return list(ex.map(fn, items))

def fresh_dir(*parts):
    """a fresh scratch directory under .cache/cgen (one top-level cache entry, kept young so that the
    shared cache eviction in build._evict never removes it during a run)"""
    d = os.path.join(WORK, *parts)
    try: os.utime(WORK)
    except OSError: pass
    shutil.rmtree(d, ignore_errors=True)
    os.makedirs(d)
    return d

# ------------------------------------------------------------------ compiling an emitted file set
STD = "-std=c99"

def _sh(cmd, **kw):
    return subprocess.run(cmd, stdout=subprocess.PIPE, stderr=subprocess.STDOUT, text=True, **kw)

def module_cflags(outdir):
    """ASN_MODULE_CFLAGS of the generated Makefile.am.libasncodec (-DASN_DISABLE_OER_SUPPORT …)"""
    try:
        mk = open(os.path.join(outdir, "Makefile.am.libasncodec")).read()
    except FileNotFoundError:
        return []
    m = re.search(r"^ASN_MODULE_CFLAGS=(.*)$", mk, re.M)
    return m.group(1).split() if m else []

_skel_obj_lock = {}
def skel_object(name, cflags):
    """cached `gcc -std=c99 -O0 -c /repo/skeletons/<name>` for a given flag set; (obj, error-or-None)"""
    src = os.path.join(build.REPO, "skeletons", name)
    key = hashlib.sha256((open(src, "rb").read() + repr(cflags).encode() + _skel_hdr_hash().encode())).hexdigest()[:16]
    d = os.path.join(WORK, "c99skel")
    os.makedirs(d, exist_ok=True)
    obj = os.path.join(d, f"{name[:-2]}-{key}.o")
    if os.path.exists(obj): return obj, None
    tmp = obj + ".tmp%d_%d" % (os.getpid(), id(cflags) % 100000)
    r = _sh(["gcc", STD, "-O0", "-w", "-I" + os.path.join(build.REPO, "skeletons")] + list(cflags) + ["-c", src, "-o", tmp])
    if r.returncode != 0: return None, r.stdout[-600:]
    os.replace(tmp, obj)
    return obj, None

_hh = {}
def _skel_hdr_hash():
    if "h" not in _hh:
        h = hashlib.sha256()
        for f in build.skel_headers(): h.update(open(f, "rb").read())
        _hh["h"] = h.hexdigest()[:16]
    return _hh["h"]

def is_skeleton_copy(path):
    s = os.path.join(build.REPO, "skeletons", os.path.basename(path))
    return os.path.exists(s) and filecmp.cmp(path, s, shallow=False)

def compile_emitted(outdir, cflags=None, std=None):
    """gcc -std=c99 -c on every emitted .c file.  Returns (objs, module_objs, errors[(file, msg)])."""
    cflags = module_cflags(outdir) if cflags is None else cflags
    objs, mobjs, errs = [], [], []
    od = os.path.join(outdir, "obj"); os.makedirs(od, exist_ok=True)
    for src in sorted(glob.glob(os.path.join(outdir, "*.c"))):
        base = os.path.basename(src)
        if base in ("converter-example.c", "pdu_collection.c", "verif_stub.c", "verif_types_table.c"): continue
        if is_skeleton_copy(src):
            o, e = skel_object(base, cflags)
            if e: errs.append((base, e))
            else: objs.append(o)
            continue
        o = os.path.join(od, base[:-2] + ".o")
        r = _sh(["gcc", std or STD, "-O0", "-w", "-I" + outdir] + list(cflags) + ["-c", src, "-o", o])
        if r.returncode != 0: errs.append((base, first_error(r.stdout)))
        else: objs.append(o); mobjs.append(o)
    return objs, mobjs, errs

def first_error(text):
    """first error line of a gcc/g++ log plus the quoted source line"""
    ls = text.split("\n")
    for i, l in enumerate(ls):
        if "error" in l:
            src = next((x.split("|", 1)[1].strip() for x in ls[i + 1:i + 3] if re.match(r"\s*\d+ \|", x)), "")
            return (l.strip()[:300] + (" [[" + src[:120] + "]]" if src else ""))
    return text.strip()[:300]

def write_stub(outdir, type_names):
    """PDU-table stub main referencing every top-level type descriptor"""
    p = os.path.join(outdir, "verif_stub.c")
    with open(p, "w") as fh:
        for n in type_names: fh.write(f'#include "{n}.h"\n')
        fh.write("asn_TYPE_descriptor_t *asn_pdu_collection[] = {\n" + "".join(f"  &asn_DEF_{c_ident(n)},\n" for n in type_names) + "  0 };\n")
        fh.write("int main(void) { return asn_pdu_collection[0] ? 0 : 1; }\n")
    return p

def link_exact(outdir, objs, type_names, cflags):
    """link exactly the emitted file set + the stub.  Returns error text or None."""
    stub = write_stub(outdir, type_names)
    so = os.path.join(outdir, "obj", "verif_stub.o")
    r = _sh(["gcc", STD, "-O0", "-w", "-I" + outdir] + list(cflags) + ["-c", stub, "-o", so])
    if r.returncode != 0: return "stub: " + first_error(r.stdout)
    r = _sh(["gcc"] + objs + [so, "-lm", "-o", os.path.join(outdir, "obj", "exact")])
    if r.returncode != 0:
        und = sorted(set(re.findall(r"undefined reference to `([^']+)'", r.stdout)))
        return ("undefined: " + " ".join(und)[:400]) if und else r.stdout.strip()[-400:]
    return None

def skel_archive(cflags):
    """every skeleton source compiled -std=c99 with `cflags`, as a cached archive (for the dump driver)"""
    names = [os.path.basename(s) for s in build.skel_sources()]
    key = hashlib.sha256((repr(sorted(names)) + repr(cflags) + _skel_hdr_hash() +
                          "".join(hashlib.sha256(open(s, "rb").read()).hexdigest() for s in build.skel_sources())).encode()).hexdigest()[:16]
    lib = os.path.join(WORK, "c99skel", f"libskel-{key}.a")
    if os.path.exists(lib): return lib
    with build._Lock("c99skel-" + key):
        if os.path.exists(lib): return lib
        res = pmap(lambda n: skel_object(n, cflags), names)
        bad = [e for o, e in res if e]
        # with -DASN_DISABLE_*_SUPPORT some skeleton files are not meant to be compiled (asn1c does not copy them)
        if bad and not cflags: raise build.BuildError("skeleton does not compile with -std=c99: " + bad[0])
        tmp = lib + ".tmp%d" % os.getpid()
        r = _sh(["ar", "rcs", tmp] + [o for o, e in res if not e])
        if r.returncode != 0: raise build.BuildError("ar failed " + r.stdout)
        os.replace(tmp, lib)
    return lib

def dump_driver_objs():
    """harness objects for the descriptor dump (compiled once, -std=gnu99 like the other drivers)"""
    srcs = [os.path.join(build.HARNESS, s) for s in ("gen_driver.c", "ops_gen_core.c", "reflect.c")]
    flags = ["-std=gnu99", build.GUARD, "-w", "-O0", "-I" + os.path.join(build.REPO, "skeletons"), "-I" + build.HARNESS]
    key = build._hash(srcs + glob.glob(os.path.join(build.HARNESS, "*.h")) + build.skel_headers(), flags)
    d = os.path.join(WORK, "c10drv-" + key)
    with build._Lock("c10drv-" + key):
        if not os.path.exists(os.path.join(d, "ok")):
            shutil.rmtree(d, ignore_errors=True)
            build.compile_objects(srcs, d, flags)
            open(os.path.join(d, "ok"), "w").close()
    return sorted(glob.glob(os.path.join(d, "*.o")))

def link_dump_driver(outdir, mobjs, type_names, cflags):
    """module objects + types table + dump driver + full skeleton archive -> exe (or raises BuildError)"""
    tt = os.path.join(outdir, "verif_types_table.c")
    with open(tt, "w") as fh:
        for n in type_names: fh.write(f'#include "{n}.h"\n')
        fh.write("asn_TYPE_descriptor_t *verif_types[] = {" + ", ".join(f"&asn_DEF_{c_ident(n)}" for n in type_names) + ", 0};\n")
        fh.write("const char *verif_type_names[] = {" + ", ".join(f'"{n}"' for n in type_names) + ", 0};\n")
    to = os.path.join(outdir, "obj", "verif_types_table.o")
    r = _sh(["gcc", STD, "-O0", "-w", "-I" + outdir] + list(cflags) + ["-c", tt, "-o", to])
    if r.returncode != 0: raise build.BuildError("types table: " + first_error(r.stdout))
    exe = os.path.join(outdir, "obj", "dumpdrv")
    r = _sh(["gcc"] + dump_driver_objs() + mobjs + [to, skel_archive(cflags), "-lm", "-lpthread", "-o", exe])
    if r.returncode != 0: raise build.BuildError("dump driver link: " + r.stdout.strip()[-600:])
    return exe

def cxx_headers(outdir, cflags):
    """g++ -std=gnu++14 -fsyntax-only on every emitted module header; returns [(header, msg)]"""
    errs = []
    for h in sorted(glob.glob(os.path.join(outdir, "*.h"))):
        if is_skeleton_copy(h): continue
        r = _sh(["g++", "-std=gnu++14", "-fsyntax-only", "-w", "-I" + outdir] + list(cflags) + ["-x", "c++", h])
        if r.returncode != 0: errs.append((os.path.basename(h), first_error(r.stdout)))
    return errs

_cxx_skel = {}
def cxx_skeleton_headers(cflags):
    """the skeleton headers themselves (once per flag set); returns [(header, msg)]"""
    k = tuple(cflags)
    if k in _cxx_skel: return _cxx_skel[k]
    def one(h):
        r = _sh(["g++", "-std=gnu++14", "-fsyntax-only", "-w", "-I" + os.path.join(build.REPO, "skeletons")] + list(cflags) + ["-x", "c++", h])
        return (os.path.basename(h), first_error(r.stdout)) if r.returncode != 0 else None
    _cxx_skel[k] = [e for e in pmap(one, build.skel_headers()) if e]
    return _cxx_skel[k]

# ------------------------------------------------------------------ splitting a module into several files
def split_module(m, rng, nparts):
    """Splits the type list into `nparts` modules with IMPORTS between them.  Returns list of
    (module name, text).  A type may reference types of any other part (asn1c resolves module order)."""
    types = m["types"]
    parts = [[] for _ in range(nparts)]
    home = {}
    for i, (n, t) in enumerate(types):
        k = i % nparts if i < nparts else rng.randrange(nparts)
        parts[k].append((n, t)); home[n] = k
    def refs(t, acc):
        if t["k"] == "REF": acc.add(t["name"])
        for c in t.get("comps", []): refs(c["type"], acc)
        if "elem" in t: refs(t["elem"], acc)
        return acc
    out = []
    td = {"EXPLICIT": "EXPLICIT TAGS ", "IMPLICIT": "IMPLICIT TAGS ", "AUTOMATIC": "AUTOMATIC TAGS ", None: ""}[m.get("tagdefault")]
    for k, ts in enumerate(parts):
        need = {}
        for n, t in ts:
            for r in refs(t, set()):
                if home.get(r, k) != k: need.setdefault(home[r], set()).add(r)
        name = f"{m['name']}P{k}"
        lines = [f"{name} DEFINITIONS {td}::= BEGIN"]
        if need:
            lines.append("  IMPORTS " + " ".join(", ".join(sorted(v)) + f" FROM {m['name']}P{j}" for j, v in sorted(need.items())) + ";")
        for n, t in ts: lines.append(f"  {n} ::= {genmod.type_text(t)}")
        lines.append("END")
        out.append((name, "\n".join(lines) + "\n"))
    return out

def read_tree(d):
    """{relative file name: bytes} of a directory"""
    out = {}
    for root, _, files in os.walk(d):
        for f in files:
            p = os.path.join(root, f)
            out[os.path.relpath(p, d)] = open(p, "rb").read()
    return out

def diff_trees(a, b, only=None):
    """names of files that differ / exist on one side only (restricted by predicate `only`)"""
    names = sorted(set(a) | set(b))
    return [n for n in names if (only is None or only(n)) and a.get(n) != b.get(n)]

# ------------------------------------------------------------------ multi-module sets with deliberate name collisions
COLLIDE_NAMES = ["body", "info", "data", "item", "a-b", "int", "hdr", "value", "class"]
MULTI_MODES = ["cross-import", "cross-noimport", "same-module", "member-cross", "none", "same-toplevel"]

def _inline_body(rng, uniq, kind=None):
    """text of an inline constructed / enumerated type whose inner identifiers are unique (`uniq`)"""
    kind = kind or rng.choice(["SEQUENCE", "SET", "CHOICE", "ENUMERATED", "SEQUENCE", "OF"])
    if kind == "ENUMERATED": return f"ENUMERATED {{ r{uniq}, g{uniq}, b{uniq} }}"
    if kind == "CHOICE": return f"CHOICE {{ c{uniq} [0] NULL, d{uniq} [1] BOOLEAN }}"
    if kind == "OF": return f"SEQUENCE OF SEQUENCE {{ o{uniq} [0] INTEGER (0..{rng.choice([7, 255, 65535])}) }}"
    return f"{kind} {{ x{uniq} [0] INTEGER, y{uniq} [1] {rng.choice(['BOOLEAN', 'IA5String', 'OCTET STRING (SIZE(2))'])} OPTIONAL }}"

def gen_multi(rng, base, k, mode, tagdefault=None):
    """k module files with IMPORTS between them and deliberate C-name collisions:
      cross-import   the same inline member name in a type of module 0 and of module 1, module 0 imports module 1's type
      cross-noimport the same, without any reference between the two modules
      same-module    the collision inside module 0 (control)
      member-cross   an anonymous `SEQUENCE OF SEQUENCE {...}` element ("Member") in module 0 and module 1
      none           no collision (control)
      same-toplevel  modules 0 and 1 both define a top-level type of the same name, each used in its own module
    Returns (files [(file name, text)], top-level type names (None when names are ambiguous), description)."""
    td = {"EXPLICIT": "EXPLICIT TAGS ", "IMPLICIT": "IMPLICIT TAGS ", "AUTOMATIC": "AUTOMATIC TAGS ", None: ""}[tagdefault]
    mods = [f"{base}M{i}" for i in range(k)]
    types = [[] for _ in range(k)]          # (name, text)
    imports = [dict() for _ in range(k)]     # from-module index -> set of names
    # a little generated content per module (depth 1: no inline constructed members, no unplanned clashes)
    for i in range(k):
        g = NGen(rng, nasty=0.3, tagdefault=tagdefault, max_depth=1)
        g.idn = 100 * (i + 1)            # member identifiers distinct across the modules of the set
        m = g.gen_module("x", 2)
        mapping = {n: f"{base}P{i}{n}" for n, _ in m["types"]}
        def ren(t):
            t = dict(t)
            if t["k"] == "REF": t["name"] = mapping.get(t["name"], t["name"])
            if "comps" in t: t["comps"] = [dict(c, type=ren(c["type"])) for c in t["comps"]]
            if "elem" in t: t["elem"] = ren(t["elem"])
            return t
        for n, t in m["types"]: types[i].append((mapping[n], genmod.type_text(ren(t))))
    name = rng.choice(COLLIDE_NAMES)
    other = rng.choice([n for n in COLLIDE_NAMES if n != name])
    def col(i, j, member, kind=None, peer=None):
        u = f"{i}{j}"
        lines = [f"{member} [0] {_inline_body(rng, u, kind)}"]
        if peer: lines.append(f"peer{u} [1] {peer} OPTIONAL")
        lines.append(f"tail{u} [2] BOOLEAN")
        return (f"{base}Col{u}", "SEQUENCE {\n    " + ",\n    ".join(lines) + "\n  }")
    def link(i, j, tname):
        if i != j: imports[i].setdefault(j, set()).add(tname)
        return tname
    names_ok = True
    if mode == "cross-import":
        b = col(1, 0, name); types[1].append(b)
        types[0].append(col(0, 0, name, peer=link(0, 1, b[0])))
    elif mode == "cross-noimport":
        types[0].append(col(0, 0, name)); types[1].append(col(1, 0, name))
    elif mode == "same-module":
        a = col(0, 0, name); types[0].append(a); types[0].append(col(0, 1, name, peer=a[0]))
        types[1].append(col(1, 0, other, peer=link(1, 0, a[0])))
    elif mode == "member-cross":
        b = col(1, 0, other, kind="OF"); types[1].append(b)
        types[0].append(col(0, 0, name, kind="OF", peer=link(0, 1, b[0])))
    elif mode == "none":
        b = col(1, 0, other); types[1].append(b)
        types[0].append(col(0, 0, name, peer=link(0, 1, b[0])))
    elif mode == "same-toplevel":
        shared = rng.choice(["Header", "Shared", "Info", "A-B"])
        names_ok = False
        for i in (0, 1):
            types[i].append((shared, ["SEQUENCE { version [0] INTEGER (0..15), flags [1] BIT STRING (SIZE(8)) }",
                                      "SEQUENCE { length [0] INTEGER (0..65535), kind [1] ENUMERATED { request, response } }"][i]
                             if rng.random() < 0.7 else rng.choice(["INTEGER (0..7)", "IA5String (SIZE(1..4))", "ENUMERATED { p, q }"]) if i == 0 else "BOOLEAN"))
            types[i].append((f"{base}Use{i}", f"SEQUENCE {{ header [0] {shared}, more{i} [1] OCTET STRING OPTIONAL }}"))
        if k > 2: types[2].append((f"{base}Far", f"SEQUENCE {{ u0 [0] {link(2, 0, base + 'Use0')}, u1 [1] {link(2, 1, base + 'Use1')} OPTIONAL }}"))
    else:
        raise ValueError(mode)
    # extra references between the modules so that every module is connected to another one
    for i in range(k):
        j = (i + 1) % k
        if k > 1 and not imports[i] and mode != "cross-noimport":
            tn = types[j][0][0]
            types[i].append((f"{base}Ref{i}", f"SEQUENCE {{ far{i} [0] {link(i, j, tn)} OPTIONAL }}"))
    files = []
    for i in range(k):
        lines = [f"{mods[i]} DEFINITIONS {td}::= BEGIN"]
        if imports[i]:
            lines.append("  IMPORTS " + " ".join(", ".join(sorted(v)) + f" FROM {mods[j]}" for j, v in sorted(imports[i].items())) + ";")
        for n, t in types[i]: lines.append(f"  {n} ::= {t}")
        lines.append("END")
        files.append((mods[i] + ".asn1", "\n".join(lines) + "\n"))
    names = [n for ts in types for n, _ in ts] if names_ok else None
    return files, names, f"{mode}:{name}"
