"""K leg for the L2 model: C codec bytes / decode results vs the Lean model on generated modules.

k_leg(ctx, name, modules_with_values, syntaxes) where syntaxes is a list of
(c_enc_syntax, c_dec_syntax, lean_enc_syntax, lean_dec_syntax), e.g. ("der", "ber", "der", "ber").
Returns a dict of counters; disagreements are appended to ctx.broken (first few) and returned."""
import collections
from . import genmod, bundle, build, sexp

def k_leg(ctx, name, cases, syntaxes, skip=None, max_report=10):
    """cases: list of (module dict, {type name: [values]}).  skip(syn, type, env) -> bool."""
    st = collections.Counter()
    dis = []
    for m, vals in cases:
        txt = genmod.module_text(m); env = dict(m["types"])
        b = bundle.Bundle(m["name"], txt, [n for n, _ in m["types"]])
        try:
            exe = b.build()
        except Exception as e:
            st["build_failed"] += 1; ctx.module_not_built(m, e); b.cleanup(); continue
        msx = "l2mod " + genmod.module_sexp(m)
        for (cenc, cdec, lenc, ldec) in syntaxes:
            cl, ml, meta = [], [msx], []
            for n, t in m["types"]:
                if skip and skip(cenc, t, env): st["skipped_region"] += len(vals.get(n, [])); continue
                for v in vals.get(n, []):
                    cl.append(f"@{n} enc {cenc} {genmod.val_sexp(t, v, env)}")
                    ml.append(f"@{n} l2enc {lenc} {genmod.val_pos_sexp(t, v, env)}")
                    meta.append((n, t))
            if not cl: continue
            co, _ = ctx.run_c_bisect(exe, cl)
            rc, mo, err = ctx.run_lines(build.model_exe(), ml)
            if rc != 0 or len(mo) != len(ml): raise RuntimeError("model driver failed: " + err[-300:])
            mo = mo[1:]
            dl, dm, dmeta = [], [msx], []
            for l, c, mm, (n, t) in zip(cl, co, mo, meta):
                ctx.cov["evaluations"] += 1
                if mm == "unsupported-type": st["unsupported_type"] += 1; continue
                cc = c if c and c.startswith("ok ") else "fail"
                if cc == mm: st[cenc + "_enc_same"] += 1; ctx.count_nontrivial((cenc, n, l[:120]))
                else:
                    st[cenc + "_enc_diff"] += 1
                    dis.append({"module": txt, "type": n, "op": l, "c": str(c)[:400], "model": mm[:400], "syntax": cenc, "stage": "encode"})
                if cc.startswith("ok "):
                    dl.append(f"@{n} decq {cdec} {cc[3:]}"); dm.append(f"@{n} l2dec {ldec} {cc[3:]}"); dmeta.append((n, t))
            if dl:
                co, _ = ctx.run_c_bisect(exe, dl)
                rc, mo, err = ctx.run_lines(build.model_exe(), dm)
                mo = mo[1:]
                for l, c, mm, (n, t) in zip(dl, co, mo, dmeta):
                    ctx.cov["evaluations"] += 1
                    ok = False
                    cp = str(c).split(" ", 2); mp = mm.split(" ", 2)
                    if len(cp) == 3 and len(mp) == 3 and cp[0] == mp[0] == "ok" and cp[1] == mp[1]:
                        try:
                            named = genmod.pos_to_named(t, sexp.parse(mp[2]), env)
                            ok = genmod.norm_sexp(t, named, env) == genmod.norm_sexp(t, sexp.parse(cp[2]), env)
                        except Exception:
                            ok = False
                    elif cp[0] == mp[0] and cp[0] in ("more", "fail"):
                        ok = True
                    if ok: st[cdec + "_dec_same"] += 1
                    else:
                        st[cdec + "_dec_diff"] += 1
                        dis.append({"module": txt, "type": n, "op": l, "c": str(c)[:400], "model": mm[:400], "syntax": cdec, "stage": "decode"})
        b.cleanup()
    ctx.cov["correspondence"][name] = dict(st)
    for d in dis[:max_report]:
        ctx.broken.append({"kind": "correspondence", "name": name, **{k: (v if k != "module" else v[:3000]) for k, v in d.items()}})
    return st, dis
