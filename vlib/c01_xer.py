"""C01 (XER part) — K leg for the Lean XER model (lean/Asn1cModel/L2/{XerTypes,Xer}.lean).

The model mirrors asn1c's BASIC-XER / CANONICAL-XER codec as it is: `L2.Xer.encXER` byte for byte
(xer_encoder.c, *_encode_xer: indentation, line breaks, escaping, value lists, SET / SET OF order) and
`L2.Xer.decXER` (the pxml_parse tokenizer + the phase machines of the *_decode_xer functions).  The theorems
about it (lean/props/C01XER.json: encode-then-decode is the identity, canonical SET OF order independence,
BASIC and CANONICAL decode alike) hold for the C code as far as this leg shows that C and the model agree:

  * encode: for generated modules x values, C `enc xer` / `enc cxer` bytes == model bytes;
  * decode: for the C encodings AND for variants of them (other white space / layout, comments, `<x/>` vs
    `<x></x>`, blanks inside tags, entity references, lower-case hex, reordered / duplicated / deleted /
    unknown elements, truncation, random octet edits) C `decq xer` == model `l2dec xer` (same acceptance,
    same value, same number of octets consumed).

A disagreement is a broken correspondence (the model is the subject of the theorems); when the C round trip
itself fails on the input it is reported as a failing input of C01.

Not modelled (counted as `not_modelled`, never compared): types containing REAL, open types / ANY.
The regions of the known XER findings need no skipping here because the model reproduces them
(F30 trailing newline not consumed; F76 - SET / SEQUENCE treated an absent DEFAULT differently in BASIC-XER - is repaired).
Repaired findings (the model follows the repaired code, nothing is skipped, the former witnesses are part of the
fixed module / the directed decoder inputs `DIRECTED`):
  F56  CANONICAL-XER does not encode a component that holds its DEFAULT value, stored or absent;
  F150 BMPString / UniversalString go through the escaping of the other character strings ('<' '&' '>' and the
       control characters);
  F152 `&#;` `&#x;` `&#0;` are a decoding error (it was an assert);
  F59  white space between the tags of a BOOLEAN element and its `<true/>` / `<false/>` is accepted;
  F153 a value tag called like the element (`<red><red/></red>`, `<true><true/></true>`, `<nul><nul/></nul>`) decodes;
  F65  (= the formerly proposed F151) an extensible SET is written in the order of its `tag2el_cxer` table - the root in canonical
       tag order, then the additions in textual order - whatever the first octets of the two tag tables are;
  F76  BASIC-XER of a SET writes an absent DEFAULT member with its default value, like a SEQUENCE;
  F125 the decimal numeral of an `unsigned long` INTEGER decodes over the whole range 0 .. 2^64-1.
"""
import collections, re
from . import build, genmod, bundle, sexp

# ------------------------------------------------------------------------------------------------ module s-expression with names
def xer_ty_sexp(t, env):
    """genmod.ty_sexp with the identifiers of ENUMERATED items: (ENUMERATED tag ((name val)...) -|((name val)...))"""
    k = t["k"]
    if k == "ENUMERATED":
        root, extv = genmod.enum_values(t)
        r = " ".join("(%s %d)" % (n, v) for (n, _), v in zip(t["items"], root))
        e = "-" if t.get("ext") is None else "(" + " ".join("(%s %d)" % (n, v) for (n, _), v in zip(t["ext"], extv)) + ")"
        return "(ENUMERATED %s (%s) %s)" % (genmod._tag_sx(t), r, e)
    if k in ("SEQUENCE", "SET", "CHOICE"):
        comps = []
        for c in t["comps"]:
            o = c.get("opt")
            if k == "CHOICE": comps.append("(%s %s)" % (c["id"], xer_ty_sexp(c["type"], env)))
            else:
                osx = "m" if o is None else ("o" if o == "OPTIONAL" else "(d %s)" % genmod.val_pos_sexp(c["type"], o[2], env))
                comps.append("(%s %s %s)" % (c["id"], xer_ty_sexp(c["type"], env), osx))
        ext = "-" if t.get("ext") is None else str(t["ext"])
        return "(%s %s %s (%s))" % (k, genmod._tag_sx(t), ext, " ".join(comps))
    if k in ("SEQUENCE OF", "SET OF"):
        return "(%s %s %s %s)" % ("SEQOF" if k == "SEQUENCE OF" else "SETOF", genmod._tag_sx(t), genmod._cons_sx(t.get("size")), xer_ty_sexp(t["elem"], env))
    return genmod.ty_sexp(t, env)

def xer_module_sexp(m):
    env = dict(m["types"])
    return "(module %s %s)" % (m.get("tagdefault") or "none", " ".join("(%s %s)" % (n, xer_ty_sexp(t, env)) for n, t in m["types"]))

# ------------------------------------------------------------------------------------------------ fixed module
def T(k, **kw): return dict(k=k, **kw)
def _sq(k, comps, ext=None):
    cs = []
    for c in comps:
        d = {"id": c[0], "type": c[1]}
        if len(c) > 2 and c[2] is not None: d["opt"] = c[2]
        cs.append(d)
    t = T(k, comps=cs)
    if ext is not None: t["ext"] = ext
    return t
def _ch(alts, ext=None):
    t = T("CHOICE", comps=[{"id": i, "type": ty} for i, ty in alts])
    if ext is not None: t["ext"] = ext
    return t

def fixed_module(rng, quick=True):
    """shapes that matter for XER and that the random generator produces rarely: every XMLValueList /
    delimited-list combination, line-break boundaries of OCTET STRING (16 octets) and BIT STRING (8 octets),
    all escape forms, DEFAULT / OPTIONAL / extension components, SET order, nested CHOICEs"""
    types, vals = [], {}
    def add(n, t, vs): types.append((n, t)); vals[n] = vs
    def rb(n): return bytes(rng.getrandbits(8) for _ in range(n))
    I = T("INTEGER", cons=None); B = T("BOOLEAN"); N = T("NULL"); O = T("OCTET STRING"); U = T("UTF8String")
    E = T("ENUMERATED", items=[("red", None), ("green", None), ("blue-sky", None)])
    E2 = T("ENUMERATED", items=[("a", 5), ("b", -3)], ext=[("c", 300)])
    add("XInt", I, [0, -1, 1, 9, 10, -10, 127, 128, 255, 256, 32767, -32768, 99999, 2147483647, -2147483648,
                    (1 << 63) - 1, -(1 << 63), 1000000000000, -999999999999])
    add("XU32", T("INTEGER", cons=genmod.cons(0, 4294967295)), [0, 1, 4294967295, 2147483648])
    add("XWide", T("INTEGER", cons=genmod.cons(-1, (1 << 63) - 1)), [-1, 0, (1 << 63) - 1, 1 << 40])
    # unsigned long over its whole range (finding F125 repaired: 2^63 and above were written but did not decode)
    add("XUMax", T("INTEGER", cons=genmod.cons(0, None)), [0, 1, (1 << 63) - 1, 1 << 63, (1 << 63) + 1, (1 << 64) - 2, (1 << 64) - 1, rng.randrange(1 << 63, 1 << 64)])
    add("XUSeq", _sq("SEQUENCE", [("u", T("INTEGER", cons=genmod.cons(5, None))), ("l", T("SEQUENCE OF", elem=T("REF", name="XUMax"), size=None))]),
        [{"u": 5, "l": []}, {"u": (1 << 64) - 1, "l": [1 << 63, 0, (1 << 64) - 1]}])
    add("XBool", B, [True, False]); add("XNull", N, [None])
    add("XEnum", E, [0, 1, 2]); add("XEnum2", E2, [5, -3, 300])
    add("XOct", O, [b""] + [rb(n) for n in (1, 2, 15, 16, 17, 31, 32, 33, 48, 49)] + [bytes(range(256))])
    def bits(n):
        nb = (n + 7) // 8; u = nb * 8 - n
        b = bytearray(rb(nb))
        if nb: b[-1] = (b[-1] & ((0xff << u) & 0xff)) | (1 << u)
        return (bytes(b), u)
    add("XBits", T("BIT STRING"), [(b"", 0)] + [bits(n) for n in (1, 7, 8, 9, 56, 57, 63, 64, 65, 71, 72, 73, 127, 128, 129, 136, 137, 200)])
    add("XUtf", U, ["", "a", " ", "  a  ", "\t\n\r", "<", ">", "&", "a<b&c>d", "&amp;", "&#65;", "]]>", "\x00", "\x01\x02\x1f", "a\x00b\x7f",
                    "\x0b\x0c", "é€\U0001f600", "x" * 40, "".join(chr(c) for c in range(0, 64)), "<nul/>", "1 < 2"])
    add("XIa5", T("IA5String"), ["", "abc", "a&b", "\x00\x7f", "<x/>"])
    add("XPrt", T("PrintableString"), ["", "A b", "Az 09'()+,-./:=?"])
    add("XBmp", T("BMPString"), ["", "a", "aé€", "\x01", "￿", "a b", "a<b", "<", "&amp;", "x>&<y", "\x00", "a\x00\x1f\t\n\r<nul/>", "]]>"])
    add("XUni", T("UniversalString"), ["", "a", "a\U0010ffff", "é€\U0001f600", "a<b", "&", "&#60;&lt;", "\x00>\x07", "\U0001f600<\x1b"])
    add("XOid", T("OBJECT IDENTIFIER"), [[0, 0], [1, 39], [2, 40], [2, 999, 3], [1, 2, 840, 113549, 1], [2, 4294967215], [0, 1, 4294967295, 0]])
    add("XRoid", T("RELATIVE-OID"), [[0], [1, 2], [4294967295], [127, 128, 16383, 16384]])
    add("XGt", T("GeneralizedTime"), ["19700101000000Z", "20010203040506.123Z"])
    add("XUt", T("UTCTime"), ["700101000000Z", "491231235959Z"])
    # --- lists: tag-wrapped, value lists (BOOLEAN / ENUMERATED / NULL), delimited (CHOICE), nested
    add("XLInt", T("SEQUENCE OF", elem=I), [[], [1], [1, -2, 3]])
    add("XSInt", T("SET OF", elem=I), [[], [1], [3, 1, 2], [10, 9, 100, -1, 1], [1, 1]])
    add("XLBool", T("SEQUENCE OF", elem=B), [[], [True], [True, False, True]])
    add("XSBool", T("SET OF", elem=B), [[], [False], [True, False, True]])
    add("XLEnum", T("SEQUENCE OF", elem=E), [[], [2], [0, 1, 2]])
    add("XSEnum", T("SET OF", elem=E), [[], [2, 0, 1]])
    add("XLNull", T("SEQUENCE OF", elem=N), [[], [None], [None, None]])
    add("XSNull", T("SET OF", elem=N), [[], [None, None]])
    CH = _ch([("p", I), ("q", N), ("r", B), ("s", U)])
    add("XCh", CH, [("p", 5), ("q", None), ("r", True), ("s", "x<y")])
    add("XLCh", T("SEQUENCE OF", elem=T("REF", name="XCh")), [[], [("p", 1)], [("p", 1), ("q", None), ("r", False)]])
    add("XSCh", T("SET OF", elem=T("REF", name="XCh")), [[], [("s", "b"), ("p", 1), ("q", None)]])
    add("XLChI", T("SEQUENCE OF", elem=_ch([("m", I), ("n", O)])), [[("m", 1), ("n", b"\x01")]])
    add("XLRefB", T("SEQUENCE OF", elem=T("REF", name="XBool")), [[True, False]])
    add("XLRefN", T("SET OF", elem=T("REF", name="XNull")), [[None, None]])
    add("XLRefI", T("SEQUENCE OF", elem=T("REF", name="XInt")), [[1, 2]])
    add("XLOct", T("SET OF", elem=O), [[b"", b"\x01", b"\x00\xff", rb(17)], [b"\x02", b"\x01\x00", b"\x01"]])
    add("XLUtf", T("SET OF", elem=U), [["b", "a", "", "ab", "<", "\x01"]])
    add("XLBits", T("SEQUENCE OF", elem=T("BIT STRING")), [[(b"", 0), bits(9)]])
    add("XLL", T("SEQUENCE OF", elem=T("SET OF", elem=I)), [[], [[]], [[2, 1], [], [3]]])
    add("XLSeq", T("SET OF", elem=_sq("SEQUENCE", [("a", I), ("b", B, "OPTIONAL")])), [[{"a": 2}, {"a": 1, "b": True}, {"a": 1}]])
    # --- SEQUENCE: OPTIONAL / DEFAULT / extensions
    add("XSeq0", _sq("SEQUENCE", []), [{}])
    add("XSeq0e", _sq("SEQUENCE", [], ext=0), [{}])
    add("XSeq", _sq("SEQUENCE", [("a", I), ("b", B, "OPTIONAL"), ("c", O), ("d", T("BIT STRING")), ("e", E), ("n", N), ("u", U),
                                 ("i", I, ("DEFAULT", "5", 5)), ("t", B, ("DEFAULT", "TRUE", True)), ("z", I, ("DEFAULT", "0", 0))]),
        [{"a": -5, "c": b"\x01\x02", "d": (b"\xa0", 4), "e": 1, "n": None, "u": "a<&\x00>\tb"},
         {"a": 1, "b": False, "c": rb(20), "d": bits(70), "e": 0, "n": None, "u": "", "i": 6, "t": False, "z": 1},
         # DEFAULT values stored explicitly (CANONICAL-XER omits them, BASIC-XER writes them)
         {"a": 2, "c": b"", "d": (b"", 0), "e": 2, "n": None, "u": "x", "i": 5, "t": True, "z": 0},
         {"a": 3, "c": b"", "d": (b"", 0), "e": 2, "n": None, "u": "x", "i": 5, "t": False}])
    add("XSeqO", _sq("SEQUENCE", [("a", I, "OPTIONAL"), ("b", I, "OPTIONAL"), ("c", I), ("d", I, "OPTIONAL"), ("e", I, "OPTIONAL")]),
        [{"c": 1}, {"a": 1, "c": 2}, {"b": 1, "c": 2, "e": 3}, {"a": 1, "b": 2, "c": 3, "d": 4, "e": 5}, {"c": 1, "d": 2}])
    add("XSeqE", _sq("SEQUENCE", [("a", I), ("x", B), ("y", U, "OPTIONAL")], ext=1), [{"a": 1}, {"a": 1, "x": True}, {"a": 1, "y": "s"}, {"a": 1, "x": False, "y": ""}])
    add("XSeqE2", _sq("SEQUENCE", [("a", I, "OPTIONAL"), ("b", B)], ext=2), [{"b": True}, {"a": 1, "b": False}])
    add("XNest", _sq("SEQUENCE", [("s", T("REF", name="XSeqO")), ("c", T("REF", name="XCh")), ("l", T("REF", name="XLBool")), ("k", T("REF", name="XLInt"), "OPTIONAL")]),
        [{"s": {"c": 1}, "c": ("q", None), "l": [True]}, {"s": {"a": 1, "c": 2}, "c": ("s", ""), "l": [], "k": [1, 2]}])
    # --- identifiers that equal a value tag of the type they carry (finding F153, repaired: they round-trip)
    add("XEnClash", _sq("SEQUENCE", [("red", E), ("x", E)]), [{"red": 0, "x": 0}, {"red": 1, "x": 2}])
    add("XBoClash", _sq("SEQUENCE", [("true", B), ("false", B)]), [{"true": True, "false": True}, {"true": False, "false": False}])
    add("XCtClash", _sq("SEQUENCE", [("nul", U), ("soh", T("BMPString"))]), [{"nul": "a", "soh": "\x01"}, {"nul": "a\x00", "soh": "\x00\x01"}])
    add("XChClash", _ch([("true", B), ("red", E), ("esc", T("IA5String"))]), [("true", True), ("true", False), ("red", 0), ("red", 2), ("esc", "\x1b[")])
    add("XLClash", T("SEQUENCE OF", elem=_sq("SEQUENCE", [("false", B)])), [[{"false": False}, {"false": True}]])
    # --- SET: canonical tag order of the root, DEFAULT
    C = "ctx"
    add("XSet", _sq("SET", [("b", dict(I, tag=(C, 1, ""))), ("a", dict(B, tag=(C, 0, ""))), ("c", dict(U, tag=(C, 2, "")), "OPTIONAL")]),
        [{"b": 1, "a": True}, {"b": 2, "a": False, "c": "x"}])
    add("XSetD", _sq("SET", [("i", dict(I, tag=(C, 3, "")), ("DEFAULT", "0", 0)), ("j", dict(I, tag=(C, 2, "")), ("DEFAULT", "7", 7)),
                             ("e", dict(E, tag=(C, 1, "")), ("DEFAULT", "red", 0)), ("k", dict(B, tag=(C, 0, "")))]),
        [{"k": True}, {"i": 1, "j": 8, "e": 2, "k": False}, {"i": 0, "j": 7, "e": 0, "k": True}, {"j": 7, "e": 1, "k": False}])
    add("XSeqED", _sq("SEQUENCE", [("a", I), ("x", I, ("DEFAULT", "9", 9)), ("y", B, ("DEFAULT", "FALSE", False))], ext=1),
        [{"a": 1}, {"a": 1, "x": 9}, {"a": 1, "x": 9, "y": False}, {"a": 1, "x": 8, "y": True}])
    add("XSetE", _sq("SET", [("a", dict(I, tag=(C, 5, ""))), ("x", dict(B, tag=(C, 1, "")))], ext=1), [{"a": 1}, {"a": 1, "x": True}])
    # extensible SETs (finding F65 repaired: the tag2el_cxer table - root in canonical tag order, then the additions in textual
    # order - was dropped by a memcmp over `count` BYTES): additions with smaller / larger tags, of another class
    A = "app"
    add("XSetE2", _sq("SET", [("a", dict(I, tag=(C, 5, ""))), ("b", dict(B, tag=(A, 1, "")))], ext=1), [{"a": 5}, {"a": 5, "b": True}])
    add("XSetE3", _sq("SET", [("c", dict(I, tag=(C, 7, ""))), ("a", dict(B, tag=(C, 3, ""))), ("z", dict(U, tag=(C, 9, ""))), ("y", dict(N, tag=(C, 0, ""))),
                              ("x", dict(I, tag=(A, 2, "")), "OPTIONAL")], ext=2),
        [{"c": 1, "a": True}, {"c": 2, "a": False, "z": "t", "y": None, "x": 3}, {"c": 3, "a": True, "y": None}])
    add("XSetE4", _sq("SET", [("b", dict(B, tag=(C, 1, ""))), ("a", dict(I, tag=(C, 0, ""))), ("x", dict(I, tag=(C, 2, "")))], ext=2), [{"b": True, "a": 1}, {"b": False, "a": 2, "x": 3}])
    # --- CHOICE: nested, extensible
    add("XChE", _ch([("a", I), ("b", T("REF", name="XCh")), ("c", N)], ext=2), [("a", 1), ("b", ("q", None)), ("b", ("s", "t")), ("c", None)])
    return {"name": "XF", "tagdefault": "AUTOMATIC", "types": types}, vals

# ------------------------------------------------------------------------------------------------ regions
def not_modelled(t, env):
    return genmod.contains_kind(t, env, ("REAL",))

def _types_below(t, env, seen=None):
    seen = seen if seen is not None else set()
    yield t
    k = t["k"]
    if k == "REF":
        if t["name"] in seen: return
        seen.add(t["name"])
        yield from _types_below(env[t["name"]], env, seen)
    elif k in ("SEQUENCE", "SET", "CHOICE"):
        for c in t["comps"]: yield from _types_below(c["type"], env, seen)
    elif k in ("SEQUENCE OF", "SET OF"):
        yield from _types_below(t["elem"], env, seen)

# decoder inputs aimed at the repaired findings F152 / F59 / F153 (type of the fixed module, input); the model and
# C must agree on each of them like on every generated variant
DIRECTED = [
    # F152: numeric character references without digits / of value 0 (it was `assert(val > 0)`), and their neighbours
    ("XUtf", b"<XUtf>&#;</XUtf>"), ("XUtf", b"<XUtf>&#x;</XUtf>"), ("XUtf", b"<XUtf>&#0;</XUtf>"), ("XUtf", b"<XUtf>&#x00;</XUtf>"),
    ("XUtf", b"<XUtf>a&#000;b</XUtf>"), ("XUtf", b"<XUtf>&#x41;&#x;</XUtf>"), ("XUtf", b"<XUtf>&#;"), ("XUtf", b"<XUtf>&#1;&#x1;&#01;</XUtf>"),
    ("XUtf", b"<XUtf>&#x</XUtf>"), ("XUtf", b"<XUtf>&#</XUtf>"), ("XUtf", b"<XUtf>&#g;</XUtf>"), ("XUtf", b"<XUtf>&#x110000;&#1114111;</XUtf>"),
    ("XIa5", b"<XIa5>&#0;</XIa5>"), ("XBmp", b"<XBmp>&#x;</XBmp>"), ("XUni", b"<XUni>a&#;</XUni>"), ("XGt", b"<XGt>&#0;</XGt>"),
    ("XBmp", b"<XBmp>&#x3c;&lt;&#60;</XBmp>"), ("XSeq", b"<XSeq><a>1</a><c/><d/><e><red/></e><n/><u>&#x0;</u></XSeq>"),
    # F59: white space / comments between the tags of a BOOLEAN element and its value
    ("XBool", b"<XBool> <true/> </XBool>"), ("XBool", b"<XBool>\n\t<false/>\r\n</XBool>"), ("XBool", b"<XBool> <true/></XBool>"),
    ("XBool", b"<XBool><true/> </XBool>"), ("XBool", b"<XBool> </XBool>"), ("XBool", b"<XBool></XBool>"), ("XBool", b"<XBool/>"),
    ("XBool", b"<XBool> <!-- c --> <true/> <!-- c --> </XBool>"), ("XBool", b"<XBool> <true/> <true/> </XBool>"), ("XBool", b"<XBool> x<true/></XBool>"),
    ("XBool", b"<XBool>\x0c<true/></XBool>"), ("XBool", b"<XBool> <true/> x</XBool>"), ("XBool", b"<XBool> <true></true> </XBool>"),
    ("XEnum", b"<XEnum> <red/> </XEnum>"), ("XEnum", b"<XEnum> </XEnum>"), ("XNull", b"<XNull> </XNull>"),
    ("XSeqE2", b"<XSeqE2><b> <true/> </b></XSeqE2>"), ("XLBool", b"<XLBool> <true/> <false/> </XLBool>"),
    ("XCh", b"<XCh><r> <false/> </r></XCh>"),
    # F153: a value tag called like the element
    ("XEnClash", b"<XEnClash><red><red/></red><x><red/></x></XEnClash>"), ("XEnClash", b"<XEnClash><red> <red/> </red><x><red/></x></XEnClash>"),
    ("XEnClash", b"<XEnClash><red/><x><red/></x></XEnClash>"), ("XEnClash", b"<XEnClash><red><red/><red/></red><x><red/></x></XEnClash>"),
    ("XEnClash", b"<XEnClash><red><red></red></red><x><red/></x></XEnClash>"), ("XEnClash", b"<XEnClash><red><red/></red><x><x/></x></XEnClash>"),
    ("XBoClash", b"<XBoClash><true><true/></true><false><false/></false></XBoClash>"), ("XBoClash", b"<XBoClash><true><false/></true><false><true/></false></XBoClash>"),
    ("XBoClash", b"<XBoClash><true/><false/></XBoClash>"), ("XBoClash", b"<XBoClash><true> <true/> </true><false>\n<false/></false></XBoClash>"),
    ("XCtClash", b"<XCtClash><nul><nul/>a<nul/></nul><soh><soh/><nul/></soh></XCtClash>"), ("XCtClash", b"<XCtClash><nul/><soh/></XCtClash>"),
    ("XCtClash", b"<XCtClash><nul><nul></nul></nul><soh/></XCtClash>"), ("XInt", b"<XInt><XInt/></XInt>"), ("XInt", b"<XInt>5<XInt/></XInt>"),
    ("XOct", b"<XOct>01<XOct/></XOct>"), ("XNull", b"<XNull><XNull/></XNull>"), ("XBits", b"<XBits><XBits/>1</XBits>"),
    ("XChClash", b"<XChClash><true><true/></true></XChClash>"), ("XChClash", b"<XChClash><red><red/></red></XChClash>"),
    ("XChClash", b"<XChClash><esc><esc/>[</esc></XChClash>"), ("XChClash", b"<XChClash><esc/></XChClash>"),
    # F125: the numeral of an unsigned long beyond LONG_MAX (asn_strtoumax_lim after asn_strtoimax_lim hit the range limit), and its neighbours
    ("XUMax", b"<XUMax>9223372036854775808</XUMax>"), ("XUMax", b"<XUMax>18446744073709551615</XUMax>"), ("XUMax", b"<XUMax>18446744073709551616</XUMax>"),
    ("XUMax", b"<XUMax>+9223372036854775808</XUMax>"), ("XUMax", b"<XUMax>0009223372036854775808</XUMax>"), ("XUMax", b"<XUMax> 18446744073709551615\n</XUMax>"),
    ("XUMax", b"<XUMax>-1</XUMax>"), ("XUMax", b"<XUMax>-9223372036854775808</XUMax>"), ("XUMax", b"<XUMax>-9223372036854775809</XUMax>"), ("XUMax", b"<XUMax>-0</XUMax>"),
    ("XUMax", b"<XUMax>99999999999999999999</XUMax>"), ("XUMax", b"<XUMax>184467440737095516150</XUMax>"), ("XUMax", b"<XUMax>00:80:00:00:00:00:00:00:00</XUMax>"),
    ("XUMax", b"<XUMax>01:00:00:00:00:00:00:00:00</XUMax>"), ("XUMax", b"<XUMax>80</XUMax>"), ("XUMax", b"<XUMax>9223372036854775808:</XUMax>"),
    ("XInt", b"<XInt>9223372036854775808</XInt>"), ("XInt", b"<XInt>-9223372036854775809</XInt>"), ("XInt", b"<XInt>18446744073709551615</XInt>"),
    ("XU32", b"<XU32>9223372036854775808</XU32>"), ("XU32", b"<XU32>18446744073709551615</XU32>"), ("XWide", b"<XWide>9223372036854775808</XWide>"),
    ("XEnum", b"<XEnum>9223372036854775808</XEnum>"),
]

# ------------------------------------------------------------------------------------------------ variants of an encoding
_TOK = re.compile(rb"<[^<>]*>|[^<]+|<")
WS = [b" ", b"\n", b"\t", b"\r\n  ", b"\n\n", b"    ", b"\x0c", b" \x0b"]

def _split(b): return _TOK.findall(b)
def _is_tag(t): return t.startswith(b"<") and t.endswith(b">") and len(t) > 2
def _is_ws(t): return not t.startswith(b"<") and t.strip(b" \t\r\n") == b""

def variants(enc, rng, n):
    """up to n distinct variants of the encoding `enc` (bytes): (label, bytes)"""
    toks = _split(enc)
    out = []
    def emit(label, ts): out.append((label, b"".join(ts)))
    tags = [i for i, t in enumerate(toks) if _is_tag(t)]
    texts = [i for i, t in enumerate(toks) if not t.startswith(b"<")]
    # 1. layout: every white-space-only text replaced / white space inserted between adjacent tags
    ts = []
    for i, t in enumerate(toks):
        if _is_ws(t): ts.append(rng.choice(WS))
        else:
            ts.append(t)
            if _is_tag(t) and i + 1 < len(toks) and _is_tag(toks[i + 1]) and rng.random() < 0.5: ts.append(rng.choice(WS))
    emit("layout", ts)
    # 2. no white space at all between tags
    emit("squeeze", [t for t in toks if not _is_ws(t)])
    # 3. comments
    if toks:
        i = rng.randrange(len(toks) + 1)
        emit("comment", toks[:i] + [rng.choice([b"<!-- c -->", b"<!---->", b"<!-- <a> -- x -->", b"<!--a--->"])] + toks[i:])
    # 4. <x></x> -> <x/> and <x/> -> <x></x>
    for i in range(len(toks) - 1):
        a, b2 = toks[i], toks[i + 1]
        if _is_tag(a) and _is_tag(b2) and not a.startswith(b"</") and not a.endswith(b"/>") and b2 == b"</" + a[1:]:
            emit("collapse", toks[:i] + [a[:-1] + b"/>"] + toks[i + 2:]); break
    for i in tags:
        a = toks[i]
        if a.endswith(b"/>") and rng.random() < 0.7:
            emit("expand", toks[:i] + [a[:-2] + b">", b"</" + a[1:-2] + b">"] + toks[i + 1:]); break
    # 5. blanks / attributes inside a tag
    if tags:
        i = rng.choice(tags); a = toks[i]
        ins = rng.choice([b" ", b"\n", b' a="b"', b" a=b", b' a="<>"', b"\t"])
        pos = len(a) - (2 if a.endswith(b"/>") else 1)
        emit("intag", toks[:i] + [a[:pos] + ins + a[pos:]] + toks[i + 1:])
    # 6. text edits
    if texts:
        i = rng.choice(texts); x = toks[i]
        kind = rng.randrange(6)
        if kind == 0: y = rng.choice(WS) + x
        elif kind == 1: y = x + rng.choice(WS)
        elif kind == 2: y = x.lower()
        elif kind == 3:
            j = rng.randrange(len(x)); y = x[:j] + (b"&#x%x;" % x[j] if rng.random() < 0.5 else b"&#%d;" % x[j]) + x[j + 1:]
        elif kind == 4:
            j = rng.randrange(len(x) + 1); y = x[:j] + rng.choice([b"&amp;", b"&lt;", b"&gt;", b"&", b"&#", b"&#x;", b"&#;", b"&#0;", b"&#x0;", b"&quot;", b"&lt", b"&#1114112;", b"&#x41", b"+", b"-", b":", b"0", b"A"]) + x[j:]
        else:
            j = rng.randrange(len(x) + 1); y = x[:j] + rng.choice(WS) + x[j:]
        emit("text", toks[:i] + [y] + toks[i + 1:])
    # 7. structure: delete / duplicate / swap / rename elements
    if len(tags) > 2:
        i = rng.choice(tags[1:-1])
        emit("deltag", toks[:i] + toks[i + 1:])
        emit("duptag", toks[:i] + [toks[i]] + toks[i:])
        a = toks[i]
        nm = re.match(rb"</?([^\s/>]+)", a)
        if nm:
            new = rng.choice([b"zz", nm.group(1) + b"x", nm.group(1)[:-1] or b"q", nm.group(1).upper()])
            ts = [re.sub(rb"^(</?)" + re.escape(nm.group(1)) + rb"(?=[\s/>])", lambda m_: m_.group(1) + new, t) if _is_tag(t) else t for t in toks[1:-1]]
            emit("rename", [toks[0]] + ts + [toks[-1]])
        emit("unknown", toks[:i] + [rng.choice([b"<zz/>", b"<zz></zz>", b"<zz><y>1</y><y/></zz>", b"<zz>t</zz>", b"</zz>", b"<zz>"])] + toks[i:])
    # sibling swap: find two consecutive elements at the same depth
    spans = _elements(toks)
    if len(spans) >= 2:
        k = rng.randrange(len(spans) - 1)
        (a0, a1), (b0, b1) = spans[k], spans[k + 1]
        if a1 <= b0: emit("swap", toks[:a0] + toks[b0:b1] + toks[a1:b0] + toks[a0:a1] + toks[b1:])
        (a0, a1) = spans[rng.randrange(len(spans))]
        emit("dupelem", toks[:a1] + toks[a0:a1] + toks[a1:])
        emit("delelem", toks[:a0] + toks[a1:])
    # 8. truncation and octet edits
    if len(enc) > 1:
        emit("trunc", [enc[:rng.randrange(1, len(enc))]])
        j = rng.randrange(len(enc))
        emit("edit", [enc[:j] + bytes([rng.choice(b"<>&/ =\"!-;a0\x00\x80")]) + enc[j + 1:]])
        emit("insert", [enc[:j] + bytes([rng.choice(b"<>&/ =\"!-;a0")]) + enc[j:]])
    emit("tail", [enc + rng.choice([b" ", b"\n\n", b"<x>", b"junk", b"<!--"])])
    emit("lead", [rng.choice([b" ", b"\n", b"<!-- x -->", b"text", b"<?xml?>"]) + enc])
    seen = {enc}; res = []
    rng.shuffle(out)
    for lab, b in out:
        if b in seen or not b: continue
        seen.add(b); res.append((lab, b))
        if len(res) >= n: break
    return res

def _elements(toks):
    """(start, end) token spans of the child elements of the outermost element (well-formed input only)"""
    spans = []; depth = 0; start = None
    for i, t in enumerate(toks):
        if not _is_tag(t) or t.startswith(b"<!"): continue
        if t.startswith(b"</"):
            depth -= 1
            if depth == 1 and start is not None: spans.append((start, i + 1)); start = None
        elif t.endswith(b"/>"):
            if depth == 1: spans.append((i, i + 1))
        else:
            if depth == 1: start = i
            depth += 1
    return spans

# ------------------------------------------------------------------------------------------------ the leg
def pos_to_named_x(t, sx, env):
    """genmod.pos_to_named, plus the CHOICE without a selected alternative (index = number of alternatives),
    which the C dumper prints as (choice -none)"""
    k = t["k"]
    if k == "REF": return pos_to_named_x(env[t["name"]], sx, env)
    if not isinstance(sx, list): return sx
    if k in ("SEQUENCE", "SET") and sx and sx[0] == "seq":
        out = ["seq" if k == "SEQUENCE" else "set"]
        for c, x in zip(t["comps"], sx[1:]):
            if x == "-": continue
            out.append([c["id"], pos_to_named_x(c["type"], x, env)])
        return out
    if k == "CHOICE" and sx and sx[0] == "choice":
        if int(sx[1]) >= len(t["comps"]): return ["choice", "-none"]
        c = t["comps"][int(sx[1])]
        return ["choice", c["id"], pos_to_named_x(c["type"], sx[2], env)]
    if k in ("SEQUENCE OF", "SET OF") and sx and sx[0] == "list":
        return ["list"] + [pos_to_named_x(t["elem"], x, env) for x in sx[1:]]
    return genmod.pos_to_named(t, sx, env)

def _same_dec(t, env, c, mm):
    cp = str(c).split(" ", 2); mp = mm.split(" ", 2)
    c_ok = len(cp) == 3 and cp[0] == "ok"
    m_ok = len(mp) == 3 and mp[0] == "ok"
    if not c_ok and not m_ok: return str(c).split(" ")[0] in ("fail", "more") and mp[0] == "fail"
    if c_ok != m_ok or cp[1] != mp[1]: return False
    try:
        named = pos_to_named_x(t, sexp.parse(mp[2]), env)
        return genmod.norm_sexp(t, named, env) == genmod.norm_sexp(t, sexp.parse(cp[2]), env)
    except Exception:
        return False

def k_leg_xer(ctx, cases, nvar, max_text=6000):
    st = collections.Counter(); dis = []; labels = collections.Counter()
    for m, vals in cases:
        txt = genmod.module_text(m); env = dict(m["types"])
        b = bundle.Bundle(m["name"], txt, [n for n, _ in m["types"]])
        try:
            exe = b.build()
        except Exception:
            st["build_failed"] += 1; b.cleanup(); continue
        msx = "l2mod " + xer_module_sexp(m)
        cl, ml, meta = [], [msx], []
        for n, t in m["types"]:
            if not_modelled(t, env): st["not_modelled"] += 2 * len(vals.get(n, [])); continue
            for v in vals.get(n, []):
                sx = genmod.val_sexp(t, v, env)
                if len(sx) > 4 * max_text: st["skipped_large"] += 2; continue
                px = genmod.val_pos_sexp(t, v, env)
                for syn in ("xer", "cxer"):
                    cl.append(f"@{n} enc {syn} {sx}"); ml.append(f"@{n} l2enc {syn} {px}"); meta.append((n, t, syn, sx))
        if not cl: b.cleanup(); continue
        co, _ = ctx.run_c_bisect(exe, cl)
        rc, mo, err = ctx.run_lines(build.model_exe(), ml)
        if rc != 0 or len(mo) != len(ml): raise RuntimeError("model driver failed: " + err[-300:])
        mo = mo[1:]
        dl, dm, dmeta = [], [msx], []
        for l, c, mm, (n, t, syn, sx) in zip(cl, co, mo, meta):
            ctx.cov["evaluations"] += 1
            if mm == "unsupported-type": st["not_modelled"] += 1; continue
            cc = c if c and c.startswith("ok ") else "fail"
            if cc == mm:
                st[syn + "_enc_same"] += 1; ctx.count_nontrivial(("xer-enc", syn, n, l[:120]))
            else:
                st[syn + "_enc_diff"] += 1
                dis.append({"module": txt, "type": n, "op": l, "c": str(c)[:600], "model": mm[:600], "syntax": syn, "stage": "encode", "rt": f"@{n} rt {syn} {sx}", "exe": exe})
            if cc.startswith("ok ") and len(cc) < 2 * max_text:
                enc = bytes.fromhex(cc[3:])
                dl.append(f"@{n} decq xer {cc[3:]}"); dm.append(f"@{n} l2dec xer {cc[3:]}"); dmeta.append((n, t, "own-" + syn))
                for lab, vb in variants(enc, ctx.rng, nvar):
                    dl.append(f"@{n} decq xer {vb.hex()}"); dm.append(f"@{n} l2dec xer {vb.hex()}"); dmeta.append((n, t, lab))
        if m["name"] == "XF":
            tenv = dict(m["types"])
            for n, vb in DIRECTED:
                if n in tenv:
                    dl.append(f"@{n} decq xer {vb.hex()}"); dm.append(f"@{n} l2dec xer {vb.hex()}"); dmeta.append((n, tenv[n], "directed"))
        if dl:
            co, ncrash = ctx.run_c_bisect(exe, dl)
            rc, mo, err = ctx.run_lines(build.model_exe(), dm)
            if rc != 0 or len(mo) != len(dm): raise RuntimeError("model driver failed: " + err[-300:])
            mo = mo[1:]
            for l, c, mm, (n, t, lab) in zip(dl, co, mo, dmeta):
                ctx.cov["evaluations"] += 1
                if c is None or str(c).startswith("CRASH"):
                    st["c_crash"] += 1
                    dis.append({"module": txt, "type": n, "op": l, "c": str(c)[:600], "model": mm[:600], "syntax": "xer", "stage": "decode-crash:" + lab})
                    continue
                if _same_dec(t, env, c, mm):
                    st["dec_same"] += 1; labels[lab + (":ok" if str(c).startswith("ok") else ":rej")] += 1
                    ctx.count_nontrivial(("xer-dec", n, l[:160]))
                else:
                    st["dec_diff"] += 1
                    dis.append({"module": txt, "type": n, "op": l, "c": str(c)[:600], "model": mm[:600], "syntax": "xer", "stage": "decode:" + lab})
        # a disagreement on an encoding: does the C round trip itself fail there?
        for d in dis:
            if d.get("exe") == exe and "rt" in d:
                o, _ = ctx.run_c_bisect(exe, [d["rt"]])
                d["c_rt"] = re.sub(r"^ok [0-9a-f]+ ", "ok .. ", str(o[0]))[:300]
        for d in dis: d.pop("exe", None)
        b.cleanup()
    return st, dis, labels

# findings proposed by this leg and not yet in KNOWN_FINDINGS.json (F150 / F152 / F153 are there and repaired: their
# former witnesses are replayed by gfind.replay_fixed_witnesses and are part of the fixed module / DIRECTED)
PROPOSED_FINDINGS = []

def replay_proposed(ctx):
    known = {f["id"] for f in ctx.findings}
    res = {}
    for f in PROPOSED_FINDINGS:
        w = f["witness"]
        b = bundle.Bundle("XW" + f["id"], w["module"], [w["type"]])
        try:
            exe = b.build()
            outs, _ = ctx.run_c_bisect(exe, [f"@{w['type']} {w['op']}"])
            still = bool(re.search(w["expect"], str(outs[0])))
            res[f["id"]] = still
            if still and f["id"] in known: ctx.match_finding(lambda x: x["id"] == f["id"])
            elif not still: ctx.log(f"note: proposed finding {f['id']} no longer reproduces on its witness ({str(outs[0])[:80]})")
        except Exception as e:
            ctx.log("proposed-finding witness could not be built:", str(e)[:200])
        finally:
            b.cleanup()
    ctx.cov["predicate"]["xer_proposed_findings"] = res
    return res

def audit_theorems(ctx):
    """the theorems of lean/props/C01XER.json are audited here unless the property's own list already has them"""
    import json, os
    p = os.path.join(build.LEAN, "props", "C01XER.json")
    if not os.path.exists(p): ctx.log("C01 XER: props/C01XER.json missing"); return
    info = json.load(open(p))
    already = set(ctx.cov.get("theorems") or [])
    todo = [t for t in info["theorems"] if t not in already]
    if not todo: return
    ok, log = build.lean_build([info["module"]])
    if not ok:
        ctx.broken.append({"kind": "lean-build", "module": info["module"], "log_tail": "\n".join(log.strip().split("\n")[-30:])}); return
    res, _ = build.lean_audit(info["module"], todo)
    good = 0
    for r in res:
        if r["ok"] and all(a in ("propext", "Quot.sound", "Classical.choice") for a in r["axioms"]): good += 1
        else: ctx.broken.append({"kind": "lean-theorem", "theorem": r["name"], "msg": r["msg"]})
    ctx.cov["obligations"] += len(todo); ctx.cov["discharged"] += good
    ctx.cov.setdefault("theorems", []).extend(r["name"] for r in res)
    ctx.log(f"Lean (XER): {good}/{len(todo)} obligations discharged")

def run_xer(ctx, mods=None, nb=None, nvals=None, nvar=None):
    """mods: generated modules to reuse (default: fresh ones from c01.gen_bundles)"""
    from .props import c01
    nb = nb if nb is not None else (2 if ctx.quick else 30)
    nvals = nvals if nvals is not None else (5 if ctx.quick else 20)
    nvar = nvar if nvar is not None else (6 if ctx.quick else 14)
    audit_theorems(ctx)
    replay_proposed(ctx)
    if mods is None: mods = c01.gen_bundles(ctx, nb)
    fm, fvals = fixed_module(ctx.rng, ctx.quick)
    cases = [(fm, fvals)]
    if not ctx.quick:
        bm, bvals = genmod.boundary_module(ctx.rng, ctx.quick)
        cases.append((bm, bvals))
    for m in mods[:nb]:
        env = dict(m["types"]); vg = genmod.ValGen(ctx.rng, env)
        cases.append((m, {n: vg.values(t, nvals) for n, t in m["types"]}))
    st, dis, labels = k_leg_xer(ctx, cases, nvar)
    ctx.cov["correspondence"]["l2-xer"] = dict(st)
    ctx.cov["predicate"]["xer_model_eq_c"] = dict(st)
    ctx.cov["predicate"]["xer_decode_variants"] = dict(labels)
    for d in dis[:6]:
        rt = d.get("c_rt")
        if rt is not None and not re.search(r"rc=ok consumed=(\d+)/(\d+) cmp=0 der_same=1", rt):
            ctx.violation(f"C01: XER round trip fails on C where C and the proved model disagree ({d['stage']}) for type {d['type']}: {d['rt'][:160]} -> {rt[:160]}",
                          {"module": d["module"], "type": d["type"], "op": d["rt"], "c_output": rt, "model": d["model"], "syntax": d["syntax"]})
        else:
            ctx.broken.append({"kind": "correspondence", "name": "l2-xer", **{k: (v if k != "module" else v[:3000]) for k, v in d.items()}})
        ctx.log("XER K-leg disagreement:", d["stage"], d["type"], d["op"][:200], "C=", d["c"][:200], "MODEL=", d["model"][:200])
    ctx.log("C01 XER:", dict(st))
    return st, dis
