"""K leg of the compiler model (lean/Asn1cModel/Impl/CompileDescr.lean): the descriptor graph the model
computes from the generator's module s-expression vs the `descr` dump (harness/reflect.c rf_dump_descr) of
the tables asn1c really generated, compared field by field.

run_compile(ctx, items, name="compile_descr", exclude=()) with items = [(module dict, asn1c option list,
{type name: dump line})]; disagreements go to ctx.broken (a few, aggregated by field class), statistics to
ctx.cov["correspondence"][name].  `exclude` = field names not compared (e.g. representation-dependent ones
when the caller varies options the model is not told about).
"""
import collections, re
from . import genmod, build

SKEL_NAMES = {"BOOLEAN", "NULL", "INTEGER", "ENUMERATED", "REAL", "BIT STRING", "OCTET STRING", "OBJECT IDENTIFIER",
              "RELATIVE-OID", "UTCTime", "GeneralizedTime"} | set(genmod.STRING_KINDS)
CONSTRUCTED = {"sequence", "set", "choice", "setof", "seqof"}

def audit_theorems(ctx):
    """build + axiom audit of the theorems listed in lean/props/C10COMPILE.json (added to the property's obligations)"""
    import json, os
    p = os.path.join(build.LEAN, "props", "C10COMPILE.json")
    if not os.path.exists(p): ctx.log("compile leg: props/C10COMPILE.json missing"); return
    info = json.load(open(p))
    already = set(ctx.cov.get("theorems") or [])
    todo = [t for t in info["theorems"] if t not in already]
    if not todo: return
    ok, log = build.lean_build([info["module"]])
    if not ok:
        ctx.broken.append({"kind": "lean-build", "module": info["module"], "log_tail": "\n".join(log.strip().split("\n")[-30:])}); return
    res, _ = build.lean_audit(info["module"], todo)
    good = 0
    for r in res:
        if r["ok"] and all(a in ("propext", "Quot.sound", "Classical.choice") for a in r["axioms"]): good += 1
        else: ctx.broken.append({"kind": "lean-theorem", "theorem": r["name"], "msg": r["msg"]})
    ctx.cov["obligations"] += len(todo); ctx.cov["discharged"] += good
    ctx.cov.setdefault("theorems", []).extend(r["name"] for r in res)
    ctx.log(f"Lean (compiler model): {good}/{len(todo)} obligations discharged")

# ------------------------------------------------------------------ model input
def opts_word(opts):
    w = []
    if "-fwide-types" in opts: w.append("wide")
    if "-findirect-choice" in opts: w.append("indirect")
    if "-no-gen-PER" in opts: w.append("noper")
    if "-no-gen-OER" in opts: w.append("nooer")
    return ",".join(w) or "-"

def names_sexp(m):
    """identifiers of the items of every ENUMERATED, keyed by the path of the type expression"""
    out = []
    def walk(t, path):
        k = t["k"]
        if k == "ENUMERATED":
            ids = [n for n, _ in t["items"]] + [n for n, _ in (t.get("ext") or [])]
            out.append("(%s %s)" % (path, " ".join(ids)))
        elif k in ("SEQUENCE", "SET", "CHOICE"):
            for c in t["comps"]: walk(c["type"], path + "." + c["id"])
        elif k in ("SEQUENCE OF", "SET OF"):
            walk(t["elem"], path + ".@")
    for n, t in m["types"]: walk(t, n)
    return "(" + " ".join(out) + ")"

# ------------------------------------------------------------------ reading the dump format
_TOK = re.compile(r"[()]|[^\s()]+")
def _parse(s):
    stack = [[]]
    for t in _TOK.findall(s):
        if t == "(": stack.append([])
        elif t == ")":
            if len(stack) < 2: raise ValueError("unbalanced")
            x = stack.pop(); stack[-1].append(x)
        else: stack[-1].append(t)
    if len(stack) != 1 or len(stack[0]) != 1: raise ValueError("unbalanced")
    return stack[0][0]

def _enc(per, oer):
    p = "-" if per[1:] == ["-"] else " ".join(" ".join(x) for x in per[1:])
    o = " ".join(oer[1:])
    return p, o

def _spec(x):
    """(spec k=v ... key= (list) ...) -> dict"""
    d = {}; i = 1
    while i < len(x):
        a = x[i]
        if isinstance(a, str) and a.endswith("=") and i + 1 < len(x) and isinstance(x[i + 1], list):
            d["spec." + a[:-1]] = " ".join(x[i + 1]); i += 2
        elif isinstance(a, str) and "=" in a:
            k, v = a.split("=", 1); d["spec." + k] = v; i += 1
        else: i += 1
    return d

def _node(x):
    if not isinstance(x, list) or not x: raise ValueError("bad node")
    if x[0] == "ref":
        n = " ".join(x[1:])
        return {"skel": n, "kind": None} if n in SKEL_NAMES else {"ref": n}
    if x[0] == "skel": return {"skel": " ".join(x[1:-1]), "kind": x[-1]}
    if x[0] != "type": raise ValueError("bad node head %r" % x[0])
    i = 1
    while i < len(x) and isinstance(x[i], str): i += 1
    name, kind = " ".join(x[1:i - 1]), x[i - 1]
    parts = {p[0]: p for p in x[i:] if isinstance(p, list) and p}
    if name in SKEL_NAMES and "spec" not in parts and kind not in CONSTRUCTED:
        return {"skel": name, "kind": kind}
    per, oer = _enc(parts["per"], parts["oer"])
    d = {"name": name, "kind": kind, "tags": " ".join(parts["tags"][1]), "alltags": " ".join(parts["alltags"][1]),
         "per": per, "oer": oer}
    if "spec" in parts: d.update(_spec(parts["spec"]))
    ms = []
    for m in parts["members"][1:]:
        kv = dict(a.split("=", 1) for a in m[2:] if isinstance(a, str) and "=" in a)
        sub = [a for a in m[2:] if isinstance(a, list)]
        mper, moer = _enc(sub[0], sub[1])
        ms.append({"name": m[1], "flags": kv["flags"], "opt": kv["opt"], "tag": kv["tag"], "mode": kv["mode"],
                   "default": kv["default"], "per": mper, "oer": moer, "type": _node(sub[2])})
    d["members"] = ms
    return d

def read_dump(line):
    return _node(_parse(line))

# ------------------------------------------------------------------ field-wise comparison
def diff(c, m, path, out, exclude=()):
    """append (path, field, c value, model value) for every differing field"""
    if "skel" in c or "skel" in m:
        if "skel" in c and "skel" in m:
            if c["skel"] != m["skel"]: out.append((path, "type.skeleton", c["skel"], m["skel"]))
            elif c["kind"] is not None and c["kind"] != m["kind"] and "representation" not in exclude:
                out.append((path, "type.representation", c["kind"], m["kind"]))
        else: out.append((path, "type.is_skeleton", "skel" in c, "skel" in m))
        return
    if "ref" in c or "ref" in m:
        if c.get("ref") != m.get("ref"): out.append((path, "type.ref", c.get("ref", "(full)"), m.get("ref", "(full)")))
        return
    for f in sorted(set(c) | set(m)):
        if f == "members" or f in exclude: continue
        if f == "kind" and "representation" in exclude: continue
        if c.get(f) != m.get(f): out.append((path, f, c.get(f), m.get(f)))
    cm, mm = c["members"], m["members"]
    if len(cm) != len(mm):
        out.append((path, "members.count", len(cm), len(mm))); return
    for a, b in zip(cm, mm):
        p = path + "." + a["name"]
        for f in ("name", "flags", "opt", "tag", "mode", "default", "per", "oer"):
            if "member." + f in exclude: continue
            if a[f] != b[f]: out.append((p, "member." + f, a[f], b[f]))
        diff(a["type"], b["type"], p, out, exclude)

def run_compile(ctx, items, name="compile_descr", exclude=(), max_report=6):
    """items: [(module dict, asn1c options, {type: C dump line})].  Counters accumulate over calls."""
    st = collections.Counter(); classes = collections.Counter(); samples = {}
    lines = []; meta = []
    seen_mod = set()
    for m, opts, dumps in items:
        msx = genmod.module_sexp(m)
        lines.append("l2mod " + msx); meta.append(None)
        ow = opts_word(opts); nsx = names_sexp(m)
        for n, _ in m["types"]:
            if n in dumps:
                lines.append(f"@{n} l2descr {ow} {nsx}"); meta.append((m, opts, n, dumps[n]))
                if (msx, n) not in seen_mod:
                    seen_mod.add((msx, n))
                    lines.append(f"@{n} l2same"); meta.append((m, opts, n, None))
    if not lines: return st
    rc, outs, err = ctx.run_lines(build.model_exe(), lines)
    if rc != 0 or len(outs) != len(lines): raise RuntimeError("model driver failed on l2descr: " + err[-300:])
    for l, o, mt in zip(lines, outs, meta):
        if mt is None:
            if o != "ok": raise RuntimeError("model rejected module s-expression: " + l[:200])
            continue
        m, opts, n, dump = mt
        if dump is None:
            # the total restatement `toL2` of L2.resolveTy (what the theorems speak about) vs the resolver the codecs use
            st["l2_" + o.replace("-", "_")] += 1
            if o not in ("same", "same-none"):
                key = ("toL2-vs-resolveTy", ); classes[key] += 1
                samples.setdefault(key, (m, opts, n, n, "L2.resolveNamed", o))
            continue
        ctx.cov["evaluations"] += 1
        st["descriptors"] += 1
        try:
            c = read_dump(dump); md = read_dump(o)
        except Exception as e:
            st["unreadable"] += 1
            key = ("unreadable", str(e)[:40]); classes[key] += 1
            samples.setdefault(key, (m, opts, n, "", dump[:200], o[:200]))
            continue
        ds = []
        diff(c, md, n, ds, exclude)
        if not ds: st["same"] += 1; ctx.count_nontrivial(("compile_descr", dump[:400])); continue
        st["different"] += 1
        for p, f, cv, mv in ds[:8]:
            key = (f, ); classes[key] += 1
            samples.setdefault(key, (m, opts, n, p, cv, mv))
    prev = ctx.cov["correspondence"].get(name, {})
    tot = collections.Counter({k: v for k, v in prev.items() if k != "classes"}); tot.update(st)
    cl = collections.Counter(prev.get("classes", {})); cl.update({k[0]: v for k, v in classes.items()})
    ctx.cov["correspondence"][name] = dict(tot, classes=dict(cl))
    already = sum(1 for b in ctx.broken if b.get("name") == name)
    for key, cnt in classes.most_common(max(0, max_report - already)):
        m, opts, n, p, cv, mv = samples[key]
        ctx.log("K", name, "disagreement", key[0], "x", cnt, "|", p, "| C:", str(cv)[:120], "| model:", str(mv)[:120])
        ctx.broken.append({"kind": "correspondence", "name": name, "field": key[0], "count": cnt, "path": p,
                           "c": str(cv)[:300], "model": str(mv)[:300], "type": n, "options": list(opts),
                           "module": genmod.module_text(m)[:3000]})
    return st

# ------------------------------------------------------------------ modules exercising the tagging rules
_PRIMS = ["BOOLEAN", "INTEGER", "BIT STRING", "OCTET STRING", "NULL", "OBJECT IDENTIFIER", "REAL", "ENUMERATED", "UTF8String",
          "RELATIVE-OID", "NumericString", "PrintableString", "IA5String", "UTCTime", "GeneralizedTime", "VisibleString",
          "UniversalString", "BMPString"]

def _outer(t, env, td):
    """set of possible outermost tags (class, number) of a type expression (python oracle used only to keep the
    generated modules valid)"""
    if t.get("tag"): return {(t["tag"][0], t["tag"][1])}
    k = t["k"]
    if k == "REF": return _outer(env[t["name"]], env, td)
    if k == "CHOICE":
        if td == "AUTOMATIC" and all(not c["type"].get("tag") for c in t["comps"]):
            return {("ctx", i) for i in range(len(t["comps"]))}
        out = set()
        for c in t["comps"]: out |= _outer(c["type"], env, td)
        return out
    return {("univ", genmod.UNIV_TAG[k])}

def gen_tag_module(rng, name, td):
    """a module built around the tagging rules: top-level tagged types in every class and mode, reference chains,
    untagged CHOICE members (flattened into tag2el), untagged components, automatic tagging with and without a
    tagged component, ENUMERATED with unsorted values, aliases of constrained types, DEFAULT 0 / FALSE"""
    r = rng
    env = {}; types = []
    def add(n, t): env[n] = t; types.append((n, t)); return n
    def prim(k=None):
        k = k or r.choice(_PRIMS)
        t = {"k": k}
        if k == "ENUMERATED":
            vals = r.sample(range(0, 40), 3)
            t["items"] = [(f"e{name.lower()}{len(types)}x{i}", v) for i, v in enumerate(vals)]
            if r.random() < 0.4: t["ext"] = [(f"x{name.lower()}{len(types)}x{i}", 50 + i) for i in range(r.choice([0, 1, 2]))]
        if k == "INTEGER" and r.random() < 0.6:
            t["cons"] = r.choice([genmod.cons(0, 7), genmod.cons(-5, 300, True), genmod.cons(0, None), genmod.cons(1, 65536),
                                  genmod.cons(0, 4294967295), genmod.cons(3, 3), genmod.cons(None, 10), genmod.cons(0, 1 << 40)])
        if k in ("OCTET STRING", "IA5String", "BMPString", "UTF8String") and r.random() < 0.5:
            t["size"] = r.choice([genmod.cons(4, 4), genmod.cons(0, 255), genmod.cons(1, None), genmod.cons(2, 70000), genmod.cons(1, 8, True)])
        return t
    def tagged(t, cls=None):
        cls = cls or r.choice(["ctx", "ctx", "app", "priv"])
        t = dict(t); t["tag"] = (cls, r.choice([0, 1, 2, 7, 30, 31, 200]), r.choice(["", "IMPLICIT", "EXPLICIT"]))
        if genmod.resolve_kind(t, env) == "CHOICE" and not _has_tag(genmod.strip_tag(t), env) and t["tag"][2] == "IMPLICIT":
            t["tag"] = (t["tag"][0], t["tag"][1], "EXPLICIT")
        return t
    def _has_tag(t, env):
        if t.get("tag"): return True
        if t["k"] == "REF": return _has_tag(env[t["name"]], env)
        return t["k"] != "CHOICE"
    def members(n, pool, kind):
        comps = []; used = set(); tries = 0
        auto_all = td == "AUTOMATIC" and r.random() < 0.6        # leave every component untagged: automatic tagging
        while len(comps) < n and tries < 40:
            tries += 1
            ct = r.choice(pool)()
            if auto_all: ct = genmod.strip_tag(ct)
            o = _outer(ct, env, td)
            if not auto_all and (o & used): continue
            used |= o
            c = {"id": f"m{name.lower()}{len(types)}x{len(comps)}", "type": ct}
            if kind != "CHOICE":
                x = r.random()
                if x < 0.3: c["opt"] = "OPTIONAL"
                elif x < 0.45 and genmod.strip_tag(ct) == {"k": "BOOLEAN"}: c["opt"] = ("DEFAULT", "FALSE", False) if r.random() < 0.5 else ("DEFAULT", "TRUE", True)
                elif x < 0.45 and ct["k"] == "INTEGER" and not ct.get("cons"): v = r.choice([0, 5]); c["opt"] = ("DEFAULT", str(v), v)
            comps.append(c)
        t = {"k": kind, "comps": comps}
        def ext_choice(x):      # an untagged extensible CHOICE brings its own extension marker into the tag comparison
            if x.get("tag"): return False
            if x["k"] == "REF": return ext_choice(env[x["name"]])
            return x["k"] == "CHOICE" and (x.get("ext") is not None or any(ext_choice(c["type"]) for c in x["comps"]))
        if r.random() < 0.4 and len(comps) > 1 and not (not auto_all and any(ext_choice(c["type"]) for c in comps)):
            t["ext"] = r.randrange(1, len(comps) + 1)
        return t
    k0 = add(name + "K0", tagged(prim(), "app"))
    k1 = add(name + "K1", tagged({"k": "REF", "name": k0}, "ctx"))
    k2 = add(name + "K2", tagged({"k": "REF", "name": k1}, "priv"))
    i0 = add(name + "I0", prim("INTEGER"))
    a0 = add(name + "A0", {"k": "REF", "name": i0})
    a1 = add(name + "A1", tagged({"k": "REF", "name": a0}))
    e0 = add(name + "E0", prim("ENUMERATED"))
    plain = [lambda: prim()]
    c0 = add(name + "C0", members(r.choice([2, 3, 4]), plain, "CHOICE"))
    pool1 = plain + [lambda: {"k": "REF", "name": c0}, lambda: tagged(prim())]
    c1 = add(name + "C1", members(r.choice([2, 3]), pool1, "CHOICE"))
    c2 = add(name + "C2", tagged({"k": "REF", "name": c0}))
    refs = [k0, k1, k2, i0, a0, a1, e0, c0, c1, c2]
    pool2 = plain + [lambda: tagged(prim())] + [lambda: {"k": "REF", "name": r.choice(refs)}, lambda: tagged({"k": "REF", "name": r.choice(refs)})]
    add(name + "S0", members(r.choice([3, 4, 6]), pool2, "SEQUENCE"))
    add(name + "S1", members(r.choice([2, 3, 5]), pool2, "SET"))
    add(name + "S2", tagged(members(r.choice([2, 3]), pool2, "SEQUENCE")))
    add(name + "C3", members(r.choice([2, 4]), pool2, "CHOICE"))
    add(name + "L0", {"k": "SEQUENCE OF", "elem": {"k": "REF", "name": r.choice([c0, c1, k1, e0])}, "size": r.choice([None, genmod.cons(1, 4)])})
    add(name + "L1", tagged({"k": "SET OF", "elem": {"k": "REF", "name": r.choice(refs)}, "size": None}))
    # SEQUENCE { ... }: no components but extensible, first_extension = 0 (F120 repaired), top level and as a member
    s3 = add(name + "S3", {"k": "SEQUENCE", "comps": [], "ext": 0})
    add(name + "S4", {"k": "SEQUENCE", "comps": [{"id": f"m{name.lower()}s4x0", "type": {"k": "REF", "name": s3, "tag": ("ctx", 0, "")}, "opt": "OPTIONAL"},
                                                 {"id": f"m{name.lower()}s4x1", "type": {"k": "SEQUENCE", "comps": [], "ext": 0, "tag": ("ctx", 1, "")}}]})
    # a tag written on the element type (the fixer resolves its mode like a component's: former finding F122), also on
    # elements that get a descriptor of their own (ENUMERATED, unsigned-long INTEGER: tag_mode 0, former finding F49)
    add(name + "L2", {"k": "SEQUENCE OF", "elem": tagged(prim()), "size": None})
    add(name + "L3", {"k": "SET OF", "elem": tagged({"k": "REF", "name": r.choice(refs)}), "size": r.choice([None, genmod.cons(0, 3)])})
    add(name + "L4", {"k": "SEQUENCE OF", "elem": tagged(r.choice([prim("ENUMERATED"), {"k": "INTEGER", "cons": genmod.cons(0, None)},
                                                                    members(2, plain, "CHOICE"), members(2, plain, "SEQUENCE")])), "size": None})
    add(name + "L5", tagged({"k": "SET OF", "elem": tagged({"k": "SEQUENCE OF", "elem": tagged(prim("BOOLEAN")), "size": None}), "size": None}))
    return {"name": name, "tagdefault": td, "types": types}
