"""BER encoding variants of a DER encoding (property C03): a generic TLV walker/serialiser with
explicit length forms, indefinite lengths, constructed strings, SET permutations, BOOLEAN TRUE forms."""

# universal tags whose primitive encodings may be replaced by constructed ones (X.690 8.6.4, 8.7.3, 8.23.6: BIT STRING,
# OCTET STRING, the restricted character strings and the time types); the segments of BIT STRING are BIT STRINGs, those of
# every other type are universal OCTET STRINGs (tag 04) whatever tag the string itself carries (former finding F58).
# Strings under an IMPLICIT tag cannot be recognised in a TLV tree: `string_variants` handles them, given the chain length.
STRING_UNIV = {3, 4, 12, 18, 19, 20, 21, 22, 23, 24, 25, 26, 27, 28, 30}

class Node:
    __slots__ = ("cls", "num", "cons", "content", "kids", "form")
    def __init__(self, cls, num, cons, content=b"", kids=None, form=0):
        self.cls, self.num, self.cons, self.content, self.kids, self.form = cls, num, cons, content, kids, form
        # form: 0 = minimal definite, k>0 = k extra length octets, -1 = indefinite

def parse(b, pos=0, end=None):
    """parse DER/BER (definite lengths only) into a list of Nodes"""
    end = len(b) if end is None else end
    out = []
    while pos < end:
        first = b[pos]; pos += 1
        cls, cons, num = first >> 6, bool(first & 0x20), first & 0x1f
        if num == 0x1f:
            num = 0
            while True:
                o = b[pos]; pos += 1
                num = (num << 7) | (o & 0x7f)
                if not o & 0x80: break
        l = b[pos]; pos += 1
        if l & 0x80:
            n = l & 0x7f; l = int.from_bytes(b[pos:pos + n], "big"); pos += n
        body = b[pos:pos + l]; pos += l
        if cons: out.append(Node(cls, num, True, kids=parse(body)))
        else: out.append(Node(cls, num, False, content=body))
    return out

def ident(cls, num, cons):
    first = (cls << 6) | (0x20 if cons else 0)
    if num <= 30: return bytes([first | num])
    groups = [num & 0x7f]; num >>= 7
    while num: groups.append(0x80 | (num & 0x7f)); num >>= 7
    return bytes([first | 0x1f]) + bytes(reversed(groups))

def length(n, form):
    if form == 0:
        if n <= 127: return bytes([n])
        d = n.to_bytes((n.bit_length() + 7) // 8, "big")
        return bytes([0x80 | len(d)]) + d
    d = n.to_bytes(max(1, (n.bit_length() + 7) // 8), "big")
    pad = form - 1 if n <= 127 else form
    d = b"\x00" * pad + d
    return bytes([0x80 | len(d)]) + d

def ser(node):
    if node.cons:
        body = b"".join(ser(k) for k in node.kids)
        if node.form == -1: return ident(node.cls, node.num, True) + b"\x80" + body + b"\x00\x00"
        return ident(node.cls, node.num, True) + length(len(body), node.form) + body
    return ident(node.cls, node.num, False) + length(len(node.content), node.form) + node.content

def is_wrapper(n):
    return n.cons and n.cls != 0 and len(n.kids) == 1

def set_forms(nodes, choose):
    """choose(node) -> form for a node; explicit-tag wrappers follow their child (finding F4:
    ber_check_tags rejects chains that mix definite and indefinite lengths)"""
    for n in nodes:
        if n.cons:
            set_forms(n.kids, choose)
            if is_wrapper(n):
                k = n.kids[0]
                n.form = -1 if k.form == -1 else choose(n, allow_indef=False)
            else:
                n.form = choose(n, allow_indef=True)
        else:
            n.form = choose(n, allow_indef=False)

def split_string(n, rng, depth=1, is_bits=None):
    """primitive string node -> constructed with segments (X.690 8.7.3 / 8.6.4); in place"""
    c = n.content
    if is_bits is None: is_bits = n.num == 3 and n.cls == 0
    if is_bits:
        unused, data = (c[0], c[1:]) if c else (0, b"")
        cuts = sorted({rng.randrange(0, len(data) + 1) for _ in range(rng.randrange(1, 4))} | {0, len(data)})
        segs = [data[a:b] for a, b in zip(cuts, cuts[1:])] or [b""]
        kids = [Node(0, 3, False, content=bytes([0 if i < len(segs) - 1 else unused]) + s) for i, s in enumerate(segs)]
    else:
        cuts = sorted({rng.randrange(0, len(c) + 1) for _ in range(rng.randrange(1, 4))} | {0, len(c)})
        segs = [c[a:b] for a, b in zip(cuts, cuts[1:])] or [b""]
        kids = [Node(0, 4, False, content=s) for s in segs]
    if depth > 1 and kids:
        i = rng.randrange(len(kids))
        sub = kids[i]
        if not (is_bits and i < len(kids) - 1 and False):
            inner = Node(0, sub.num, False, content=sub.content)
            kids[i] = Node(0, sub.num, True, kids=[inner])
    n.cons, n.kids, n.content = True, kids, b""

def walk(nodes):
    for n in nodes:
        yield n
        if n.cons: yield from walk(n.kids)

def variants(der, rng, count, strings=True):
    """yields (name, bytes) BER variants of a DER encoding"""
    out = []
    def fresh(): return parse(der)
    # 1. all long-form, 2. all indefinite, 3. extra zero octets
    t = fresh(); set_forms(t, lambda n, allow_indef: 1); out.append(("long-form", b"".join(map(ser, t))))
    t = fresh(); set_forms(t, lambda n, allow_indef: -1 if allow_indef else 0); out.append(("all-indefinite", b"".join(map(ser, t))))
    t = fresh(); set_forms(t, lambda n, allow_indef: 3); out.append(("padded-length", b"".join(map(ser, t))))
    # X.690 8.1.3.5: up to 126 subsequent length octets, minimality is not required: 8, 9 and 20 length octets (wider than size_t)
    for k in (8, 9, 20):
        t = fresh(); set_forms(t, lambda n, allow_indef, k=k: k); out.append((f"padded-length-{k}", b"".join(map(ser, t))))
    # 4. BOOLEAN TRUE forms, 5. SET / SET OF permutations, 6. constructed strings
    t = fresh(); ch = False
    for n in walk(t):
        if not n.cons and n.cls == 0 and n.num == 1 and n.content == b"\xff": n.content = bytes([rng.choice([1, 0x80, 0x7f])]); ch = True
    if ch: out.append(("boolean-nonff", b"".join(map(ser, t))))
    t = fresh(); ch = False
    for n in walk(t):
        if n.cons and n.cls == 0 and n.num == 17 and len(n.kids) > 1:
            k = n.kids[:]; rng.shuffle(k)
            if [id(x) for x in k] != [id(x) for x in n.kids]: n.kids = k; ch = True
    if ch: out.append(("set-permuted", b"".join(map(ser, t))))
    if strings:
        for depth in (1, 2):
            t = fresh(); ch = False
            for n in list(walk(t)):
                if not n.cons and n.cls == 0 and n.num in STRING_UNIV and rng.random() < 0.8: split_string(n, rng, depth); ch = True
            if ch: out.append((f"constructed-strings-{depth}", b"".join(map(ser, t))))
    # 7. random mixes
    for i in range(count):
        t = fresh()
        if strings:
            for n in list(walk(t)):
                if not n.cons and n.cls == 0 and n.num in STRING_UNIV and rng.random() < 0.3: split_string(n, rng, rng.choice([1, 2]))
        for n in walk(t):
            if n.cons and n.cls == 0 and n.num == 17 and len(n.kids) > 1 and rng.random() < 0.5: rng.shuffle(n.kids)
        set_forms(t, lambda n, allow_indef: rng.choice([0, 0, 1, 2, -1] if allow_indef else [0, 0, 1, 2]))
        out.append((f"mix{i}", b"".join(map(ser, t))))
    return out

def string_variants(der, chain, is_bits, rng):
    """constructed variants of the DER encoding of ONE string value whose tag chain has `chain` tags (explicit wrappers
    included; the last one may be an IMPLICIT tag, which a TLV tree cannot tell from any other primitive type):
    segments at depth 1 and 2, definite and indefinite lengths"""
    out = []
    for depth in (1, 2):
        for form in (0, -1, 2):
            t = parse(der)
            n = t[0]
            for _ in range(chain - 1):
                if not (n.cons and len(n.kids) == 1): return out
                n = n.kids[0]
            if n.cons: return out
            split_string(n, rng, depth, is_bits=is_bits)
            set_forms(t, lambda n, allow_indef: (form if (form != -1 or allow_indef) else 0))
            out.append((f"constructed-tagged-{depth}-{'indef' if form == -1 else 'def' if form == 0 else 'long'}", b"".join(map(ser, t))))
    return out
